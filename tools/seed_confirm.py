#!/usr/bin/env python3
"""Confirm seeded changes independently in a scratch worktree of /repo (outside /repo and /verif).

usage: tools/seed_confirm.py <worktree-dir> <seed-id>...
For each seed: patch applies; builds (default + verif feature); the whole existing suite gives the same per-test
outcome as on the clean tree; the demo fails with the change and passes without it.
Appends the outcome to seeded/<id>/meta.json under "confirmed".
"""
import json, os, re, subprocess, sys

VERIF = os.path.dirname(os.path.dirname(os.path.abspath(__file__)))
wt = sys.argv[1]
seeds = sys.argv[2:]
env = dict(os.environ, CARGO_NET_OFFLINE="true", CARGO_TARGET_DIR=os.path.join(wt, "target"))

def sh(cmd, **kw):
    return subprocess.run(cmd, shell=True, cwd=wt, env=env, stdout=subprocess.PIPE, stderr=subprocess.STDOUT, text=True, **kw)

def suite():
    r = sh("cargo test --workspace --no-fail-fast --offline 2>&1")
    res = {}
    for l in r.stdout.splitlines():
        m = re.match(r"test (.+?) \.\.\. (ok|FAILED|ignored)", l)
        if m:
            name = re.sub(r"\(line \d+\)", "(line N)", m.group(1))
            res[name] = m.group(2)
    return res

if not os.path.exists(wt):
    subprocess.run(["git", "-C", "/repo", "worktree", "add", "-q", "--detach", wt, "HEAD"], check=True)
base_file = os.path.join(wt, "baseline.json")
if os.path.exists(base_file):
    base = json.load(open(base_file))
else:
    base = suite()
    json.dump(base, open(base_file, "w"))
print("baseline:", sum(v == "ok" for v in base.values()), "ok", sum(v == "FAILED" for v in base.values()), "failed", flush=True)
for sid in seeds:
    d = os.path.join(VERIF, "seeded", sid)
    meta = json.load(open(os.path.join(d, "meta.json")))
    loc = meta.get("demo_location", "")
    sub = "opening-hours-syntax/tests" if "opening-hours-syntax/tests" in loc else ("compact-calendar/tests" if "compact-calendar/tests" in loc else "tests")
    pkg = {"tests": "opening-hours", "opening-hours-syntax/tests": "opening-hours-syntax", "compact-calendar/tests": "compact-calendar"}[sub]
    tname = sid.lower() + "_demo"
    feat = "--features auto-timezone" if "auto-timezone" in loc else ""
    out = {}
    sh("git checkout -- . && git clean -fdq -e target -e baseline.json")
    os.makedirs(os.path.join(wt, sub), exist_ok=True)
    demo_dst = os.path.join(wt, sub, tname + ".rs")
    # without the change
    subprocess.run(["cp", os.path.join(d, "demo.rs"), demo_dst], check=True)
    r = sh(f"cargo test --offline -p {pkg} {feat} --test {tname} 2>&1")
    out["demo_without"] = (re.findall(r"test result: .*", r.stdout) or [r.stdout[-300:]])[-1]
    os.remove(demo_dst)
    a = sh(f"git apply {os.path.join(d, 'patch.diff')}")
    out["applies"] = a.returncode == 0
    if a.returncode == 0:
        b1 = sh("cargo build --offline 2>&1")
        b2 = sh("cargo build --offline --features verif -p opening-hours -p opening-hours-syntax 2>&1")
        out["builds"] = b1.returncode == 0 and b2.returncode == 0
        res = suite()
        diff = {k: (base.get(k), res.get(k)) for k in set(base) | set(res) if base.get(k) != res.get(k)}
        out["suite_same_as_baseline"] = not diff
        out["suite_diff"] = dict(list(diff.items())[:5])
        subprocess.run(["cp", os.path.join(d, "demo.rs"), demo_dst], check=True)
        r = sh(f"cargo test --offline -p {pkg} {feat} --test {tname} 2>&1")
        out["demo_with"] = (re.findall(r"test result: .*", r.stdout) or [r.stdout[-300:]])[-1]
    sh("git checkout -- . && git clean -fdq -e target -e baseline.json")
    ok = out.get("applies") and out.get("builds") and out.get("suite_same_as_baseline") and "FAILED" in out.get("demo_with", "") and out.get("demo_without", "").startswith("test result: ok")
    out["confirmed"] = bool(ok)
    meta["confirmed"] = out
    json.dump(meta, open(os.path.join(d, "meta.json"), "w"), indent=1)
    print(sid, "CONFIRMED" if ok else "NOT CONFIRMED", json.dumps(out)[:400], flush=True)
