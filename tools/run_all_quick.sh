#!/bin/sh
# Run every registered quick check once against /repo, sequentially (they share build caches); prints one line per property.
cd "$(dirname "$0")/.."
for p in C19 C20 C14 C16 C08 C09 C11 C01 C02 C03 C07 C13 C17 C15 C04; do
  s=$(date +%s)
  ./check $p --tier quick > logs/final.$p.out 2> logs/final.$p.err
  rc=$?
  echo "$p exit $rc $(( $(date +%s) - s ))s $(grep -c '^VIOLATION' logs/final.$p.out) violations $(grep -c '^INCONCLUSIVE' logs/final.$p.err) inconclusive"
done
