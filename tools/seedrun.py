#!/usr/bin/env python3
"""Apply a seeded change to /repo, run a check against it, undo the change, record the outcome.

usage: tools/seedrun.py <seed-id> <property> [quick|thorough]
Evidence of these runs goes to a scratch directory, never to /verif/evidence.
"""
import json
import os
import subprocess
import sys
import tempfile
import time

VERIF = os.path.dirname(os.path.dirname(os.path.abspath(__file__)))
seed, prop = sys.argv[1], sys.argv[2]
tier = sys.argv[3] if len(sys.argv) > 3 else "quick"
patch = os.path.join(VERIF, "seeded", seed, "patch.diff")
st = subprocess.run(["git", "-C", "/repo", "status", "--porcelain"], stdout=subprocess.PIPE, text=True).stdout.strip()
if st:
    sys.exit("/repo is not clean: " + st)
r = subprocess.run(["git", "-C", "/repo", "apply", patch], stderr=subprocess.PIPE, text=True)
if r.returncode != 0:
    sys.exit(f"patch does not apply: {r.stderr}")
t0 = time.time()
try:
    env = dict(os.environ)
    env["VERIF_EVIDENCE_DIR"] = tempfile.mkdtemp(prefix="seed-evidence-")
    env["VERIF_FAILFAST"] = "1"  # stop at the first replay-confirmed violation
    p = subprocess.run([os.path.join(VERIF, "check"), prop, "--tier", tier], cwd=VERIF, env=env, stdout=subprocess.PIPE, stderr=subprocess.PIPE, text=True)
finally:
    subprocess.run(["git", "-C", "/repo", "checkout", "--", "."], check=True)
viol = [l for l in p.stdout.splitlines() if l.startswith("VIOLATION")]
detail = [l.strip()[:400] for l in p.stdout.splitlines() if l.startswith("  ")]
inc = [l[:300] for l in p.stderr.splitlines() if l.startswith("INCONCLUSIVE")]
res = {"seed": seed, "property": prop, "tier": tier, "exit": p.returncode, "violations": len(viol), "first_violation": (detail[0] if detail else None),
       "inconclusive": inc[:3], "wall_s": round(time.time() - t0, 1), "caught": p.returncode == 1 and bool(viol)}
print(json.dumps(res, indent=1))
out = os.path.join(VERIF, "seeded", seed, "result.json")
hist = []
if os.path.exists(out):
    hist = json.load(open(out))
hist = [h for h in hist if not (h["property"] == prop and h["tier"] == tier)] + [res]
json.dump(hist, open(out, "w"), indent=1)
