#!/bin/sh
# usage: tools/seed_batch2.sh "<seed> <prop> [k_only_regex]" ...   -- sequential (they share /repo)
cd "$(dirname "$0")/.."
for x in "$@"; do
  set -- $x
  if [ -n "$3" ]; then export VERIF_K_ONLY=$3; else unset VERIF_K_ONLY; fi
  tools/seedrun.py $1 $2 2>&1 | python3 -c "
import json,sys
t=sys.stdin.read()
try:
    r=json.loads(t); print(r['seed'], r['property'], 'exit', r['exit'], 'caught', r['caught'], r['wall_s'], (r['first_violation'] or '')[:260], r['inconclusive'][:2])
except Exception: print('$1 $2 ERROR', t[-300:])
"
done
