#!/usr/bin/env python3
"""Write seeded/SUMMARY.md from the meta.json / result.json files."""
import glob, json, os
V = os.path.dirname(os.path.dirname(os.path.abspath(__file__)))
rows = []
for d in sorted(glob.glob(os.path.join(V, "seeded", "C*"))):
    sid = os.path.basename(d)
    meta = json.load(open(os.path.join(d, "meta.json"))) if os.path.exists(os.path.join(d, "meta.json")) else {}
    res = json.load(open(os.path.join(d, "result.json"))) if os.path.exists(os.path.join(d, "result.json")) else []
    caught = [r for r in res if r.get("caught")]
    by = "; ".join(f"{r['property']} {r['tier']}: {(r['first_violation'] or '')[:110]}" for r in caught) or ("NOT CAUGHT (" + "; ".join(f"{r['property']} {r['tier']} exit {r['exit']}" for r in res) + ")" if res else "not run")
    summ = str(meta.get("summary", ""))[:220].replace("\n", " ").replace("|", "/")
    rows.append(f"| {sid} | {summ} | {by.replace('|', '/')} |")
notes = open(os.path.join(V, "seeded", "NOTES.md")).read() if os.path.exists(os.path.join(V, "seeded", "NOTES.md")) else ""
with open(os.path.join(V, "seeded", "SUMMARY.md"), "w") as f:
    f.write("# Seeded changes and the checks that catch them\n\nEach change compiles and passes the whole existing test-suite; it was applied to /repo, the check was run "
            "(`tools/seedrun.py`), and the change undone. Full records: `<id>/meta.json` (the author's description and demonstration), `<id>/result.json` (our runs).\n\n"
            "| id | change | caught by |\n|---|---|---|\n" + "\n".join(rows) + "\n\n" + notes)
print("wrote SUMMARY.md,", len(rows), "seeds")
