#!/bin/sh
# usage: tools/seed_batch.sh "<seed> <prop> [engines]" ...   -- run seeds one after the other (they share /repo)
cd "$(dirname "$0")/.."
for x in "$@"; do
  set -- $x
  if [ -n "$3" ]; then export VERIF_ENGINES=$3; else unset VERIF_ENGINES; fi
  tools/seedrun.py $1 $2 | python3 -c "import json,sys; r=json.load(sys.stdin); print(r['seed'], r['property'], 'exit', r['exit'], 'caught', r['caught'], r['wall_s'], (r['first_violation'] or '')[:200], r['inconclusive'])"
done
