use opening_hours::OpeningHours;
use chrono::NaiveDate;
fn main() {
    let args: Vec<String> = std::env::args().collect();
    let oh = OpeningHours::parse(&args[1]).unwrap();
    let n = oh.normalize();
    println!("{}\n   => {n}", args[1]);
    for d in &args[2..] {
        let date = NaiveDate::parse_from_str(d, "%Y-%m-%d").unwrap();
        println!("{d} orig {:?}", oh.schedule_at(date).into_iter().map(|r| format!("{:?}-{:?} {:?}", r.range.start, r.range.end, r.kind)).collect::<Vec<_>>());
        println!("{d} norm {:?}", n.schedule_at(date).into_iter().map(|r| format!("{:?}-{:?} {:?}", r.range.start, r.range.end, r.kind)).collect::<Vec<_>>());
    }
}
