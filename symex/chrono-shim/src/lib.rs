//! SYMBOLIC SHIM for the `chrono` crate (engine S of /verif).
//!
//! Dates stay concrete (`NaiveDate` is a newtype over the pinned real chrono 0.4.39, which is linked
//! as `rc`). Times of day, durations, date-times and zone offsets carry `vrt::SymInt` seconds, so
//! query instants, window bounds and schedule end-points can be symbolic. Only the part of
//! chrono's API used by opening-hours-rs (and by the harnesses) is provided; sub-second precision is
//! not modelled (all values are whole seconds). The documented contracts implemented here:
//!  * `NaiveTime` is `0 <= secs < 86400`; `NaiveDateTime` is (date, time) ordered lexicographically;
//!  * `dt + delta` carries whole days into the date, panics on date overflow like chrono;
//!  * `a - b` on date-times is the signed number of seconds between them;
//!  * `TimeZone::from_local_datetime` returns None / Single / Ambiguous(earliest, latest).
#![allow(clippy::all)]

use std::cmp::Ordering;
use std::fmt;
use std::hash::{Hash, Hasher};
use std::ops::{Add, AddAssign, Neg, Sub, SubAssign};

pub use rc::{Datelike, Days, IsoWeek, Month, Months, ParseError, ParseResult, Weekday};
use vrt::{SymBool, SymInt};

pub mod prelude {
    pub use super::{DateTime, Datelike, Duration, FixedOffset, LocalResult, NaiveDate, NaiveDateTime, NaiveTime, Offset, TimeDelta, TimeZone, Timelike, Utc, Weekday};
}

pub mod format {
    pub use rc::format::*;
}

const DAY: i64 = 86_400;

// ------------------------------------------------------------------------------------------------
// TimeDelta
// ------------------------------------------------------------------------------------------------

#[derive(Clone, Copy)]
pub struct TimeDelta {
    secs: SymInt,
}

pub type Duration = TimeDelta;

impl TimeDelta {
    pub const fn zero() -> Self {
        TimeDelta { secs: SymInt::Const(0) }
    }
    pub const fn weeks(n: i64) -> Self {
        TimeDelta { secs: SymInt::Const(n * 7 * DAY) }
    }
    pub const fn days(n: i64) -> Self {
        // chrono panics when the value does not fit in its representation (i64 milliseconds)
        match n.checked_mul(DAY) {
            Some(s) if s.abs() <= i64::MAX / 1000 => TimeDelta { secs: SymInt::Const(s) },
            _ => panic!("TimeDelta::days out of bounds"),
        }
    }
    pub const fn try_days(n: i64) -> Option<Self> {
        match n.checked_mul(DAY) {
            Some(s) if s.abs() <= i64::MAX / 1000 => Some(TimeDelta { secs: SymInt::Const(s) }),
            _ => None,
        }
    }
    pub const fn hours(n: i64) -> Self {
        TimeDelta { secs: SymInt::Const(n * 3600) }
    }
    pub const fn minutes(n: i64) -> Self {
        TimeDelta { secs: SymInt::Const(n * 60) }
    }
    pub const fn seconds(n: i64) -> Self {
        TimeDelta { secs: SymInt::Const(n) }
    }
    pub const fn try_weeks(n: i64) -> Option<Self> {
        match n.checked_mul(7 * DAY) {
            Some(s) if s.abs() <= i64::MAX / 1000 => Some(TimeDelta { secs: SymInt::Const(s) }),
            _ => None,
        }
    }
    pub const fn try_hours(n: i64) -> Option<Self> {
        match n.checked_mul(3600) {
            Some(s) if s.abs() <= i64::MAX / 1000 => Some(TimeDelta { secs: SymInt::Const(s) }),
            _ => None,
        }
    }
    pub const fn try_minutes(n: i64) -> Option<Self> {
        match n.checked_mul(60) {
            Some(s) if s.abs() <= i64::MAX / 1000 => Some(TimeDelta { secs: SymInt::Const(s) }),
            _ => None,
        }
    }
    pub const fn try_seconds(n: i64) -> Option<Self> {
        if n.abs() <= i64::MAX / 1000 {
            Some(TimeDelta { secs: SymInt::Const(n) })
        } else {
            None
        }
    }
    pub fn abs(self) -> Self {
        TimeDelta { secs: SymInt::ite(self.secs.lt(SymInt::Const(0)), SymInt::Const(0).sub(self.secs), self.secs) }
    }
    pub const MAX: TimeDelta = TimeDelta { secs: SymInt::Const(i64::MAX / 1000) };
    pub const MIN: TimeDelta = TimeDelta { secs: SymInt::Const(-(i64::MAX / 1000)) };
    pub fn checked_add(&self, o: &TimeDelta) -> Option<TimeDelta> {
        let secs = self.secs.add(o.secs);
        if delta_in_range(secs) {
            Some(TimeDelta { secs })
        } else {
            None
        }
    }
    pub fn checked_sub(&self, o: &TimeDelta) -> Option<TimeDelta> {
        let secs = self.secs.sub(o.secs);
        if delta_in_range(secs) {
            Some(TimeDelta { secs })
        } else {
            None
        }
    }
    /// Shim-only: a symbolic number of seconds.
    pub fn from_sym_secs(secs: SymInt) -> Self {
        TimeDelta { secs }
    }
    /// Shim-only accessor.
    pub fn sym_secs(self) -> SymInt {
        self.secs
    }
    /// Accessors returning primitives concretise the value on this path (bisection, +-400 years).
    fn concrete(self, _what: &str) -> i64 {
        vrt::concretize(self.secs, -400 * 366 * DAY, 400 * 366 * DAY)
    }
    /// Whole units in the delta, truncated toward zero like chrono: only the QUOTIENT is made
    /// concrete (bisection over the feasible quotients), the seconds stay symbolic.
    fn whole_units(self, unit: i64) -> i64 {
        if let Some(n) = self.secs.as_const() {
            return n / unit;
        }
        let span = 400 * 366 * DAY / unit;
        let q = vrt::concretize(self.secs.div_floor_const(unit), -span - 1, span);
        // floor and truncation differ for negative values that are not a whole number of units
        if q < 0 && vrt::decide(self.secs.ne(SymInt::Const(q * unit))) {
            q + 1
        } else {
            q
        }
    }
    pub fn num_weeks(self) -> i64 {
        self.whole_units(7 * DAY)
    }
    pub fn num_days(self) -> i64 {
        self.whole_units(DAY)
    }
    pub fn num_hours(self) -> i64 {
        self.whole_units(3600)
    }
    pub fn num_minutes(self) -> i64 {
        self.whole_units(60)
    }
    pub fn num_seconds(self) -> i64 {
        self.concrete("num_seconds")
    }
    pub fn is_zero(self) -> bool {
        vrt::decide(self.secs.eq(SymInt::Const(0)))
    }
    fn to_rc(self, what: &str) -> rc::TimeDelta {
        rc::TimeDelta::try_seconds(self.concrete(what)).expect("TimeDelta out of bounds")
    }
    fn from_rc(d: rc::TimeDelta) -> Self {
        TimeDelta { secs: SymInt::Const(d.num_seconds()) }
    }
}

impl PartialEq for TimeDelta {
    fn eq(&self, o: &Self) -> bool {
        vrt::decide(self.secs.eq(o.secs))
    }
}
impl Eq for TimeDelta {}
impl PartialOrd for TimeDelta {
    fn partial_cmp(&self, o: &Self) -> Option<Ordering> {
        Some(self.cmp(o))
    }
    fn lt(&self, o: &Self) -> bool {
        vrt::decide(self.secs.lt(o.secs))
    }
    fn le(&self, o: &Self) -> bool {
        vrt::decide(self.secs.le(o.secs))
    }
    fn gt(&self, o: &Self) -> bool {
        vrt::decide(self.secs.gt(o.secs))
    }
    fn ge(&self, o: &Self) -> bool {
        vrt::decide(self.secs.ge(o.secs))
    }
}
impl Ord for TimeDelta {
    fn cmp(&self, o: &Self) -> Ordering {
        vrt::decide_cmp(self.secs, o.secs)
    }
}
impl Hash for TimeDelta {
    fn hash<H: Hasher>(&self, state: &mut H) {
        self.concrete("hash").hash(state)
    }
}
impl fmt::Debug for TimeDelta {
    fn fmt(&self, f: &mut fmt::Formatter<'_>) -> fmt::Result {
        write!(f, "TimeDelta({}s)", self.secs.text())
    }
}
impl fmt::Display for TimeDelta {
    fn fmt(&self, f: &mut fmt::Formatter<'_>) -> fmt::Result {
        write!(f, "{}s", self.secs.text())
    }
}
/// chrono's TimeDelta holds at most i64::MAX milliseconds; `+` / `-` panic beyond, `checked_*` return None.
const MAX_DELTA_SECS: i64 = i64::MAX / 1000;

fn delta_in_range(secs: SymInt) -> bool {
    match secs.as_const() {
        Some(n) => -MAX_DELTA_SECS <= n && n <= MAX_DELTA_SECS,
        None => vrt::decide(SymInt::Const(-MAX_DELTA_SECS).le(secs).and(secs.le(SymInt::Const(MAX_DELTA_SECS)))),
    }
}

impl Add for TimeDelta {
    type Output = TimeDelta;
    fn add(self, o: TimeDelta) -> TimeDelta {
        let secs = self.secs.add(o.secs);
        if !delta_in_range(secs) {
            panic!("`TimeDelta + TimeDelta` overflowed");
        }
        TimeDelta { secs }
    }
}
impl Sub for TimeDelta {
    type Output = TimeDelta;
    fn sub(self, o: TimeDelta) -> TimeDelta {
        let secs = self.secs.sub(o.secs);
        if !delta_in_range(secs) {
            panic!("`TimeDelta - TimeDelta` overflowed");
        }
        TimeDelta { secs }
    }
}
impl Neg for TimeDelta {
    type Output = TimeDelta;
    fn neg(self) -> TimeDelta {
        TimeDelta { secs: SymInt::Const(0).sub(self.secs) }
    }
}
impl std::ops::Mul<i32> for TimeDelta {
    type Output = TimeDelta;
    fn mul(self, k: i32) -> TimeDelta {
        TimeDelta { secs: self.secs.mul_const(k as i64) }
    }
}

// ------------------------------------------------------------------------------------------------
// NaiveDate: a real chrono date, or a symbolic day number (days from 0001-01-01 = 1, as chrono's
// `num_days_from_ce`). Comparisons and day arithmetic on symbolic dates are solver terms; accessors
// that return primitives (`year()`, `month()`, `day()`, `weekday()`, ...) fork over the feasible
// values by bisection, so a path knows exactly as much about the date as the code asked for.
// ------------------------------------------------------------------------------------------------

#[derive(Clone, Copy)]
pub struct NaiveDate(Repr);

#[derive(Clone, Copy)]
enum Repr {
    Real(rc::NaiveDate),
    Sym(SymInt),
}

fn ce_days(d: rc::NaiveDate) -> i64 {
    Datelike::num_days_from_ce(&d) as i64
}

fn first_of_year(y: i32) -> i64 {
    ce_days(rc::NaiveDate::from_ymd_opt(y, 1, 1).expect("year in chrono's range"))
}

/// Years a symbolic date may lie in (the harnesses constrain their dates much further).
const SYM_YEAR_MIN: i32 = 1;
const SYM_YEAR_MAX: i32 = 12_000;

impl NaiveDate {
    pub const MIN: NaiveDate = NaiveDate(Repr::Real(rc::NaiveDate::MIN));
    pub const MAX: NaiveDate = NaiveDate(Repr::Real(rc::NaiveDate::MAX));

    pub const fn from_ymd_opt(y: i32, m: u32, d: u32) -> Option<NaiveDate> {
        match rc::NaiveDate::from_ymd_opt(y, m, d) {
            Some(d) => Some(NaiveDate(Repr::Real(d))),
            None => None,
        }
    }
    pub const fn from_yo_opt(y: i32, o: u32) -> Option<NaiveDate> {
        match rc::NaiveDate::from_yo_opt(y, o) {
            Some(d) => Some(NaiveDate(Repr::Real(d))),
            None => None,
        }
    }
    pub const fn from_isoywd_opt(y: i32, w: u32, wd: Weekday) -> Option<NaiveDate> {
        match rc::NaiveDate::from_isoywd_opt(y, w, wd) {
            Some(d) => Some(NaiveDate(Repr::Real(d))),
            None => None,
        }
    }
    pub fn from_num_days_from_ce_opt(n: i32) -> Option<NaiveDate> {
        rc::NaiveDate::from_num_days_from_ce_opt(n).map(|d| NaiveDate(Repr::Real(d)))
    }

    /// Shim-only: a symbolic date given by its day number; the caller constrains the range.
    pub fn from_sym_days(days: SymInt) -> NaiveDate {
        match days.as_const() {
            Some(n) => NaiveDate(Repr::Real(rc::NaiveDate::from_num_days_from_ce_opt(n as i32).expect("day number in range"))),
            None => NaiveDate(Repr::Sym(days)),
        }
    }

    /// Shim-only: the day number as a term.
    pub fn sym_days(self) -> SymInt {
        match self.0 {
            Repr::Real(d) => SymInt::Const(ce_days(d)),
            Repr::Sym(s) => s,
        }
    }

    pub fn is_symbolic(self) -> bool {
        matches!(self.0, Repr::Sym(_))
    }

    /// The year of a symbolic date, found by bisection over year starts (forks over feasible years).
    fn sym_year(days: SymInt) -> i32 {
        let (mut lo, mut hi) = (SYM_YEAR_MIN, SYM_YEAR_MAX); // invariant: first_of_year(lo) <= days < first_of_year(hi + 1)
        while lo < hi {
            let mid = lo + (hi - lo + 1) / 2;
            if vrt::decide(days.lt(SymInt::Const(first_of_year(mid)))) {
                hi = mid - 1;
            } else {
                lo = mid;
            }
        }
        lo
    }

    /// Fully concretise a symbolic date on this path (forks over every feasible day).
    fn real(self) -> rc::NaiveDate {
        match self.0 {
            Repr::Real(d) => d,
            Repr::Sym(days) => {
                let y = Self::sym_year(days);
                let base = first_of_year(y);
                let len: i64 = if rc::NaiveDate::from_ymd_opt(y, 2, 29).is_some() { 366 } else { 365 };
                let (mut lo, mut hi) = (0i64, len - 1);
                while lo < hi {
                    let mid = lo + (hi - lo + 1) / 2;
                    if vrt::decide(days.lt(SymInt::Const(base + mid))) {
                        hi = mid - 1;
                    } else {
                        lo = mid;
                    }
                }
                rc::NaiveDate::from_yo_opt(y, lo as u32 + 1).expect("valid ordinal")
            }
        }
    }

    /// Shim-only: the wrapped real date (concretises a symbolic one).
    pub fn to_real(self) -> rc::NaiveDate {
        self.real()
    }
    pub fn from_real(d: rc::NaiveDate) -> Self {
        NaiveDate(Repr::Real(d))
    }

    fn shifted_days(self, n: i64) -> Option<NaiveDate> {
        match self.0 {
            Repr::Real(d) => {
                let delta = rc::TimeDelta::try_days(n)?;
                d.checked_add_signed(delta).map(|d| NaiveDate(Repr::Real(d)))
            }
            Repr::Sym(s) => {
                let r = s.add_const(n);
                let lo = SymInt::Const(ce_days(rc::NaiveDate::MIN));
                let hi = SymInt::Const(ce_days(rc::NaiveDate::MAX));
                if vrt::decide(lo.le(r).and(r.le(hi))) {
                    Some(NaiveDate(Repr::Sym(r)))
                } else {
                    None
                }
            }
        }
    }

    pub fn succ_opt(&self) -> Option<NaiveDate> {
        self.shifted_days(1)
    }
    pub fn pred_opt(&self) -> Option<NaiveDate> {
        self.shifted_days(-1)
    }
    pub fn checked_add_months(self, m: Months) -> Option<NaiveDate> {
        self.real().checked_add_months(m).map(NaiveDate::from_real)
    }
    pub fn checked_sub_months(self, m: Months) -> Option<NaiveDate> {
        self.real().checked_sub_months(m).map(NaiveDate::from_real)
    }
    pub fn checked_add_days(self, days: Days) -> Option<NaiveDate> {
        self.real().checked_add_days(days).map(NaiveDate::from_real)
    }
    pub fn checked_sub_days(self, days: Days) -> Option<NaiveDate> {
        self.real().checked_sub_days(days).map(NaiveDate::from_real)
    }
    fn whole_days(d: TimeDelta, what: &str) -> i64 {
        // chrono adds the whole days of the duration to a date (truncating toward zero)
        let secs = d.concrete(what);
        secs / DAY
    }
    pub fn checked_add_signed(self, d: TimeDelta) -> Option<NaiveDate> {
        d.to_rc("NaiveDate + delta");
        self.shifted_days(Self::whole_days(d, "NaiveDate + delta"))
    }
    pub fn checked_sub_signed(self, d: TimeDelta) -> Option<NaiveDate> {
        d.to_rc("NaiveDate - delta");
        self.shifted_days(-Self::whole_days(d, "NaiveDate - delta"))
    }
    pub fn signed_duration_since(self, o: NaiveDate) -> TimeDelta {
        match (self.0, o.0) {
            (Repr::Real(a), Repr::Real(b)) => TimeDelta::from_rc(a.signed_duration_since(b)),
            _ => TimeDelta { secs: self.sym_days().sub(o.sym_days()).mul_const(DAY) },
        }
    }
    pub const fn and_time(&self, time: NaiveTime) -> NaiveDateTime {
        NaiveDateTime { date: *self, time }
    }
    pub fn and_hms_opt(&self, h: u32, m: u32, s: u32) -> Option<NaiveDateTime> {
        NaiveTime::from_hms_opt(h, m, s).map(|t| self.and_time(t))
    }
    pub fn and_hms_milli_opt(&self, h: u32, m: u32, s: u32, _ms: u32) -> Option<NaiveDateTime> {
        self.and_hms_opt(h, m, s)
    }
    pub fn parse_from_str(s: &str, fmt: &str) -> ParseResult<NaiveDate> {
        rc::NaiveDate::parse_from_str(s, fmt).map(NaiveDate::from_real)
    }
    pub fn format<'a>(&self, fmt: &'a str) -> rc::format::DelayedFormat<rc::format::StrftimeItems<'a>> {
        self.real().format(fmt)
    }
    pub fn iter_days(&self) -> impl Iterator<Item = NaiveDate> {
        self.real().iter_days().map(NaiveDate::from_real)
    }
    pub fn num_days_from_ce(&self) -> i32 {
        ce_days(self.real()) as i32
    }
    pub fn week(&self, start: Weekday) -> rc::NaiveWeek {
        self.real().week(start)
    }
    pub fn leap_year(&self) -> bool {
        self.real().leap_year()
    }
    pub fn years_since(&self, base: NaiveDate) -> Option<u32> {
        self.real().years_since(base.real())
    }
}

impl Datelike for NaiveDate {
    fn year(&self) -> i32 {
        match self.0 {
            Repr::Real(d) => d.year(),
            Repr::Sym(s) => Self::sym_year(s),
        }
    }
    fn month(&self) -> u32 {
        match self.0 {
            Repr::Real(d) => d.month(),
            // year by bisection, then the month by bisection over the month starts: the day of the
            // month stays symbolic
            Repr::Sym(s) => {
                let y = Self::sym_year(s);
                let (mut lo, mut hi) = (1u32, 12u32);
                while lo < hi {
                    let mid = lo + (hi - lo + 1) / 2;
                    let start = ce_days(rc::NaiveDate::from_ymd_opt(y, mid, 1).unwrap());
                    if vrt::decide(s.lt(SymInt::Const(start))) {
                        hi = mid - 1;
                    } else {
                        lo = mid;
                    }
                }
                lo
            }
        }
    }
    fn month0(&self) -> u32 {
        self.month() - 1
    }
    fn day(&self) -> u32 {
        self.real().day()
    }
    fn day0(&self) -> u32 {
        self.real().day0()
    }
    fn ordinal(&self) -> u32 {
        self.real().ordinal()
    }
    fn ordinal0(&self) -> u32 {
        self.real().ordinal0()
    }
    fn weekday(&self) -> Weekday {
        match self.0 {
            Repr::Real(d) => d.weekday(),
            Repr::Sym(s) => {
                // 0001-01-01 (day number 1) is a Monday
                let r = s.add_const(-1).mod_const(7);
                let alts: Vec<SymBool> = (0..7).map(|k| r.eq(SymInt::Const(k))).collect();
                match vrt::decide_among(&alts) {
                    0 => Weekday::Mon,
                    1 => Weekday::Tue,
                    2 => Weekday::Wed,
                    3 => Weekday::Thu,
                    4 => Weekday::Fri,
                    5 => Weekday::Sat,
                    _ => Weekday::Sun,
                }
            }
        }
    }
    fn iso_week(&self) -> IsoWeek {
        match self.0 {
            Repr::Real(d) => d.iso_week(),
            // All days of a Monday..Sunday week share their ISO week: find the week (not the day) by
            // bisection over the Mondays of the date's year (+- one week), the weekday stays symbolic.
            Repr::Sym(s) => {
                let y = Self::sym_year(s);
                // Monday on or before Jan 1 of year y; day number 1 (0001-01-01) is a Monday
                let jan1 = first_of_year(y);
                let first_monday = jan1 - (jan1 - 1).rem_euclid(7);
                let (mut lo, mut hi) = (0i64, 53i64); // week index k: first_monday + 7k <= days < first_monday + 7(k+1)
                while lo < hi {
                    let mid = lo + (hi - lo + 1) / 2;
                    if vrt::decide(s.lt(SymInt::Const(first_monday + 7 * mid))) {
                        hi = mid - 1;
                    } else {
                        lo = mid;
                    }
                }
                // Thursday of that week decides the ISO year/week; it is a concrete date
                let thursday = rc::NaiveDate::from_num_days_from_ce_opt((first_monday + 7 * lo + 3) as i32).expect("date in range");
                thursday.iso_week()
            }
        }
    }
    fn with_year(&self, year: i32) -> Option<Self> {
        self.real().with_year(year).map(NaiveDate::from_real)
    }
    fn with_month(&self, month: u32) -> Option<Self> {
        self.real().with_month(month).map(NaiveDate::from_real)
    }
    fn with_month0(&self, month0: u32) -> Option<Self> {
        self.real().with_month0(month0).map(NaiveDate::from_real)
    }
    fn with_day(&self, day: u32) -> Option<Self> {
        self.real().with_day(day).map(NaiveDate::from_real)
    }
    fn with_day0(&self, day0: u32) -> Option<Self> {
        self.real().with_day0(day0).map(NaiveDate::from_real)
    }
    fn with_ordinal(&self, ordinal: u32) -> Option<Self> {
        self.real().with_ordinal(ordinal).map(NaiveDate::from_real)
    }
    fn with_ordinal0(&self, ordinal0: u32) -> Option<Self> {
        self.real().with_ordinal0(ordinal0).map(NaiveDate::from_real)
    }
}

impl PartialEq for NaiveDate {
    fn eq(&self, o: &Self) -> bool {
        match (self.0, o.0) {
            (Repr::Real(a), Repr::Real(b)) => a == b,
            _ => vrt::decide(self.sym_days().eq(o.sym_days())),
        }
    }
}
impl Eq for NaiveDate {}
impl PartialOrd for NaiveDate {
    fn partial_cmp(&self, o: &Self) -> Option<Ordering> {
        Some(self.cmp(o))
    }
    fn lt(&self, o: &Self) -> bool {
        match (self.0, o.0) {
            (Repr::Real(a), Repr::Real(b)) => a < b,
            _ => vrt::decide(self.sym_days().lt(o.sym_days())),
        }
    }
    fn le(&self, o: &Self) -> bool {
        match (self.0, o.0) {
            (Repr::Real(a), Repr::Real(b)) => a <= b,
            _ => vrt::decide(self.sym_days().le(o.sym_days())),
        }
    }
    fn gt(&self, o: &Self) -> bool {
        o.lt(self)
    }
    fn ge(&self, o: &Self) -> bool {
        o.le(self)
    }
}
impl Ord for NaiveDate {
    fn cmp(&self, o: &Self) -> Ordering {
        match (self.0, o.0) {
            (Repr::Real(a), Repr::Real(b)) => a.cmp(&b),
            _ => vrt::decide_cmp(self.sym_days(), o.sym_days()),
        }
    }
    fn max(self, o: Self) -> Self {
        match (self.0, o.0) {
            (Repr::Real(a), Repr::Real(b)) => NaiveDate(Repr::Real(a.max(b))),
            _ => NaiveDate::from_sym_days(self.sym_days().max(o.sym_days())),
        }
    }
    fn min(self, o: Self) -> Self {
        match (self.0, o.0) {
            (Repr::Real(a), Repr::Real(b)) => NaiveDate(Repr::Real(a.min(b))),
            _ => NaiveDate::from_sym_days(self.sym_days().min(o.sym_days())),
        }
    }
}
impl Hash for NaiveDate {
    fn hash<H: Hasher>(&self, state: &mut H) {
        match self.0 {
            Repr::Real(d) => d.hash(state),
            Repr::Sym(_) => panic!("vrt: unsupported hash of a symbolic NaiveDate"),
        }
    }
}
impl fmt::Debug for NaiveDate {
    fn fmt(&self, f: &mut fmt::Formatter<'_>) -> fmt::Result {
        match self.0 {
            Repr::Real(d) => fmt::Debug::fmt(&d, f),
            Repr::Sym(s) => write!(f, "<day {}>", s.text()),
        }
    }
}
impl fmt::Display for NaiveDate {
    fn fmt(&self, f: &mut fmt::Formatter<'_>) -> fmt::Result {
        fmt::Debug::fmt(self, f)
    }
}
impl Add<TimeDelta> for NaiveDate {
    type Output = NaiveDate;
    fn add(self, d: TimeDelta) -> NaiveDate {
        self.checked_add_signed(d).expect("`NaiveDate + TimeDelta` overflowed")
    }
}
impl Sub<TimeDelta> for NaiveDate {
    type Output = NaiveDate;
    fn sub(self, d: TimeDelta) -> NaiveDate {
        self.checked_sub_signed(d).expect("`NaiveDate - TimeDelta` overflowed")
    }
}
impl AddAssign<TimeDelta> for NaiveDate {
    fn add_assign(&mut self, d: TimeDelta) {
        *self = *self + d;
    }
}
impl SubAssign<TimeDelta> for NaiveDate {
    fn sub_assign(&mut self, d: TimeDelta) {
        *self = *self - d;
    }
}
impl Sub<NaiveDate> for NaiveDate {
    type Output = TimeDelta;
    fn sub(self, o: NaiveDate) -> TimeDelta {
        self.signed_duration_since(o)
    }
}
impl std::str::FromStr for NaiveDate {
    type Err = ParseError;
    fn from_str(s: &str) -> ParseResult<NaiveDate> {
        s.parse::<rc::NaiveDate>().map(NaiveDate::from_real)
    }
}

// ------------------------------------------------------------------------------------------------
// NaiveTime
// ------------------------------------------------------------------------------------------------

pub trait Timelike: Sized {
    fn hour(&self) -> u32;
    fn minute(&self) -> u32;
    fn second(&self) -> u32;
    fn nanosecond(&self) -> u32 {
        0
    }
    fn num_seconds_from_midnight(&self) -> u32 {
        self.hour() * 3600 + self.minute() * 60 + self.second()
    }
}

#[derive(Clone, Copy)]
pub struct NaiveTime {
    secs: SymInt,
}

impl NaiveTime {
    pub const MIN: NaiveTime = NaiveTime { secs: SymInt::Const(0) };

    pub const fn from_hms_opt(h: u32, m: u32, s: u32) -> Option<NaiveTime> {
        if h >= 24 || m >= 60 || s >= 60 {
            None
        } else {
            Some(NaiveTime { secs: SymInt::Const((h * 3600 + m * 60 + s) as i64) })
        }
    }
    pub const fn from_num_seconds_from_midnight_opt(secs: u32, nano: u32) -> Option<NaiveTime> {
        if secs >= 86_400 || nano >= 2_000_000_000 {
            None
        } else {
            Some(NaiveTime { secs: SymInt::Const(secs as i64) })
        }
    }
    /// Shim-only: symbolic seconds since midnight, constrained by the caller to `0..86400`.
    pub fn from_sym_secs(secs: SymInt) -> Self {
        NaiveTime { secs }
    }
    pub fn sym_secs(self) -> SymInt {
        self.secs
    }
    /// Accessors returning primitives concretise the second of day on this path (bisection).
    fn concrete(self, _what: &str) -> i64 {
        vrt::concretize(self.secs, 0, DAY - 1)
    }
    fn to_rc(self, what: &str) -> rc::NaiveTime {
        rc::NaiveTime::from_num_seconds_from_midnight_opt(self.concrete(what) as u32, 0).unwrap()
    }
    pub fn parse_from_str(s: &str, fmt: &str) -> ParseResult<NaiveTime> {
        use rc::Timelike as _;
        rc::NaiveTime::parse_from_str(s, fmt).map(|t| NaiveTime { secs: SymInt::Const(t.num_seconds_from_midnight() as i64) })
    }
    pub fn format<'a>(&self, fmt: &'a str) -> String {
        self.to_rc("format").format(fmt).to_string()
    }
}

impl NaiveTime {
    /// `time + delta` wraps around midnight (chrono semantics); returns the wrapped time and the
    /// number of whole days carried (in seconds).
    pub fn overflowing_add_signed(&self, d: TimeDelta) -> (NaiveTime, i64) {
        let total = self.secs.add(d.secs);
        let days = match total.as_const() {
            Some(t) => t.div_euclid(DAY),
            None => vrt::concretize(total.div_floor_const(DAY), -4_000_000, 4_000_000),
        };
        (NaiveTime { secs: total.sub(SymInt::Const(days * DAY)) }, days * DAY)
    }
    pub fn overflowing_sub_signed(&self, d: TimeDelta) -> (NaiveTime, i64) {
        let (t, c) = self.overflowing_add_signed(TimeDelta { secs: SymInt::Const(0).sub(d.secs) });
        (t, -c)
    }
    pub fn signed_duration_since(self, o: NaiveTime) -> TimeDelta {
        TimeDelta { secs: self.secs.sub(o.secs) }
    }
    pub fn with_hour(&self, h: u32) -> Option<NaiveTime> {
        use Timelike as _;
        NaiveTime::from_hms_opt(h, self.minute(), self.second())
    }
    pub fn with_minute(&self, m: u32) -> Option<NaiveTime> {
        NaiveTime::from_hms_opt(self.hour(), m, self.second())
    }
    pub fn with_second(&self, s: u32) -> Option<NaiveTime> {
        NaiveTime::from_hms_opt(self.hour(), self.minute(), s)
    }
}
impl Add<TimeDelta> for NaiveTime {
    type Output = NaiveTime;
    fn add(self, d: TimeDelta) -> NaiveTime {
        self.overflowing_add_signed(d).0
    }
}
impl Sub<TimeDelta> for NaiveTime {
    type Output = NaiveTime;
    fn sub(self, d: TimeDelta) -> NaiveTime {
        self.overflowing_sub_signed(d).0
    }
}
impl Sub<NaiveTime> for NaiveTime {
    type Output = TimeDelta;
    fn sub(self, o: NaiveTime) -> TimeDelta {
        self.signed_duration_since(o)
    }
}

impl Timelike for NaiveTime {
    fn hour(&self) -> u32 {
        (self.concrete("hour()") / 3600) as u32
    }
    fn minute(&self) -> u32 {
        (self.concrete("minute()") / 60 % 60) as u32
    }
    fn second(&self) -> u32 {
        (self.concrete("second()") % 60) as u32
    }
}

impl PartialEq for NaiveTime {
    fn eq(&self, o: &Self) -> bool {
        vrt::decide(self.secs.eq(o.secs))
    }
}
impl Eq for NaiveTime {}
impl PartialOrd for NaiveTime {
    fn partial_cmp(&self, o: &Self) -> Option<Ordering> {
        Some(self.cmp(o))
    }
    fn lt(&self, o: &Self) -> bool {
        vrt::decide(self.secs.lt(o.secs))
    }
    fn le(&self, o: &Self) -> bool {
        vrt::decide(self.secs.le(o.secs))
    }
    fn gt(&self, o: &Self) -> bool {
        vrt::decide(self.secs.gt(o.secs))
    }
    fn ge(&self, o: &Self) -> bool {
        vrt::decide(self.secs.ge(o.secs))
    }
}
impl Ord for NaiveTime {
    fn cmp(&self, o: &Self) -> Ordering {
        vrt::decide_cmp(self.secs, o.secs)
    }
}
impl Hash for NaiveTime {
    fn hash<H: Hasher>(&self, state: &mut H) {
        self.concrete("hash").hash(state)
    }
}
impl fmt::Debug for NaiveTime {
    fn fmt(&self, f: &mut fmt::Formatter<'_>) -> fmt::Result {
        match self.secs.as_const() {
            Some(n) => write!(f, "{:02}:{:02}:{:02}", n / 3600, n / 60 % 60, n % 60),
            None => write!(f, "<{}s>", self.secs.text()),
        }
    }
}
impl fmt::Display for NaiveTime {
    fn fmt(&self, f: &mut fmt::Formatter<'_>) -> fmt::Result {
        fmt::Debug::fmt(self, f)
    }
}

// ------------------------------------------------------------------------------------------------
// NaiveDateTime
// ------------------------------------------------------------------------------------------------

#[derive(Clone, Copy)]
pub struct NaiveDateTime {
    date: NaiveDate,
    time: NaiveTime,
}

impl NaiveDateTime {
    pub const MIN: NaiveDateTime = NaiveDateTime { date: NaiveDate::MIN, time: NaiveTime { secs: SymInt::Const(0) } };
    pub const MAX: NaiveDateTime = NaiveDateTime { date: NaiveDate::MAX, time: NaiveTime { secs: SymInt::Const(86_399) } };

    pub fn checked_add_days(self, days: Days) -> Option<Self> {
        self.date.checked_add_days(days).map(|d| NaiveDateTime { date: d, time: self.time })
    }
    pub fn checked_sub_days(self, days: Days) -> Option<Self> {
        self.date.checked_sub_days(days).map(|d| NaiveDateTime { date: d, time: self.time })
    }
    pub fn checked_add_months(self, m: Months) -> Option<Self> {
        self.date.checked_add_months(m).map(|d| NaiveDateTime { date: d, time: self.time })
    }
    pub fn checked_sub_months(self, m: Months) -> Option<Self> {
        self.date.checked_sub_months(m).map(|d| NaiveDateTime { date: d, time: self.time })
    }

    pub const fn new(date: NaiveDate, time: NaiveTime) -> Self {
        NaiveDateTime { date, time }
    }
    pub const fn date(&self) -> NaiveDate {
        self.date
    }
    pub const fn time(&self) -> NaiveTime {
        self.time
    }
    pub fn parse_from_str(s: &str, fmt: &str) -> ParseResult<NaiveDateTime> {
        use rc::Timelike as _;
        rc::NaiveDateTime::parse_from_str(s, fmt).map(|dt| NaiveDateTime {
            date: NaiveDate::from_real(dt.date()),
            time: NaiveTime { secs: SymInt::Const(dt.time().num_seconds_from_midnight() as i64) },
        })
    }
    pub fn format<'a>(&self, fmt: &'a str) -> String {
        rc::NaiveDateTime::new(self.date.to_real(), self.time.to_rc("format")).format(fmt).to_string()
    }

    /// Add a (possibly symbolic) number of seconds; whole days are carried into the concrete date
    /// by forking on the feasible day counts.
    fn shifted(self, delta: SymInt) -> Option<NaiveDateTime> {
        let total = self.time.secs.add(delta);
        let mut days: i64 = 0;
        if let Some(t) = total.as_const() {
            days = t.div_euclid(DAY);
        } else {
            // `days` = floor(total / DAY), found by stepping (each step is one solver decision)
            while vrt::decide(total.sub(SymInt::Const(days * DAY)).ge(SymInt::Const(DAY))) {
                days += 1;
                if days > 4_000_000 {
                    panic!("vrt: unsupported unbounded symbolic day carry");
                }
            }
            if days == 0 {
                while vrt::decide(total.sub(SymInt::Const(days * DAY)).lt(SymInt::Const(0))) {
                    days -= 1;
                    if days < -4_000_000 {
                        panic!("vrt: unsupported unbounded symbolic day carry");
                    }
                }
            }
        }
        let date = self.date.shifted_days(days)?;
        Some(NaiveDateTime { date, time: NaiveTime { secs: total.sub(SymInt::Const(days * DAY)) } })
    }

    pub fn checked_add_signed(self, d: TimeDelta) -> Option<NaiveDateTime> {
        self.shifted(d.secs)
    }
    pub fn checked_sub_signed(self, d: TimeDelta) -> Option<NaiveDateTime> {
        self.shifted(SymInt::Const(0).sub(d.secs))
    }
    pub fn signed_duration_since(self, o: NaiveDateTime) -> TimeDelta {
        let days = self.date.signed_duration_since(o.date).secs;
        TimeDelta { secs: days.add(self.time.secs.sub(o.time.secs)) }
    }
    fn and_utc_timestamp(&self) -> i64 {
        let epoch = ce_days(rc::NaiveDate::from_ymd_opt(1970, 1, 1).unwrap());
        let days = ce_days(self.date.to_real()) - epoch;
        days * DAY + vrt::concretize(self.time.secs, 0, DAY - 1)
    }
    pub fn and_utc(&self) -> DateTime<Utc> {
        DateTime { utc: *self, offset: Utc }
    }
    pub fn and_local_timezone<Tz: TimeZone>(&self, tz: Tz) -> LocalResult<DateTime<Tz>> {
        tz.from_local_datetime(self)
    }
}

impl Datelike for NaiveDateTime {
    fn year(&self) -> i32 {
        self.date.year()
    }
    fn month(&self) -> u32 {
        self.date.month()
    }
    fn month0(&self) -> u32 {
        self.date.month0()
    }
    fn day(&self) -> u32 {
        self.date.day()
    }
    fn day0(&self) -> u32 {
        self.date.day0()
    }
    fn ordinal(&self) -> u32 {
        self.date.ordinal()
    }
    fn ordinal0(&self) -> u32 {
        self.date.ordinal0()
    }
    fn weekday(&self) -> Weekday {
        self.date.weekday()
    }
    fn iso_week(&self) -> IsoWeek {
        self.date.iso_week()
    }
    fn with_year(&self, year: i32) -> Option<Self> {
        self.date.with_year(year).map(|d| NaiveDateTime { date: d, time: self.time })
    }
    fn with_month(&self, m: u32) -> Option<Self> {
        self.date.with_month(m).map(|d| NaiveDateTime { date: d, time: self.time })
    }
    fn with_month0(&self, m: u32) -> Option<Self> {
        self.date.with_month0(m).map(|d| NaiveDateTime { date: d, time: self.time })
    }
    fn with_day(&self, x: u32) -> Option<Self> {
        self.date.with_day(x).map(|d| NaiveDateTime { date: d, time: self.time })
    }
    fn with_day0(&self, x: u32) -> Option<Self> {
        self.date.with_day0(x).map(|d| NaiveDateTime { date: d, time: self.time })
    }
    fn with_ordinal(&self, x: u32) -> Option<Self> {
        self.date.with_ordinal(x).map(|d| NaiveDateTime { date: d, time: self.time })
    }
    fn with_ordinal0(&self, x: u32) -> Option<Self> {
        self.date.with_ordinal0(x).map(|d| NaiveDateTime { date: d, time: self.time })
    }
}

impl Timelike for NaiveDateTime {
    fn hour(&self) -> u32 {
        self.time.hour()
    }
    fn minute(&self) -> u32 {
        self.time.minute()
    }
    fn second(&self) -> u32 {
        self.time.second()
    }
}

impl PartialEq for NaiveDateTime {
    fn eq(&self, o: &Self) -> bool {
        self.date == o.date && vrt::decide(self.time.secs.eq(o.time.secs))
    }
}
impl Eq for NaiveDateTime {}
impl PartialOrd for NaiveDateTime {
    fn partial_cmp(&self, o: &Self) -> Option<Ordering> {
        Some(self.cmp(o))
    }
    fn lt(&self, o: &Self) -> bool {
        match self.date.cmp(&o.date) {
            Ordering::Less => true,
            Ordering::Greater => false,
            Ordering::Equal => vrt::decide(self.time.secs.lt(o.time.secs)),
        }
    }
    fn le(&self, o: &Self) -> bool {
        match self.date.cmp(&o.date) {
            Ordering::Less => true,
            Ordering::Greater => false,
            Ordering::Equal => vrt::decide(self.time.secs.le(o.time.secs)),
        }
    }
    fn gt(&self, o: &Self) -> bool {
        o.lt(self)
    }
    fn ge(&self, o: &Self) -> bool {
        o.le(self)
    }
}
impl Ord for NaiveDateTime {
    fn cmp(&self, o: &Self) -> Ordering {
        match self.date.cmp(&o.date) {
            Ordering::Equal => vrt::decide_cmp(self.time.secs, o.time.secs),
            ord => ord,
        }
    }
    fn max(self, o: Self) -> Self {
        match self.date.cmp(&o.date) {
            Ordering::Less => o,
            Ordering::Greater => self,
            Ordering::Equal => NaiveDateTime { date: self.date, time: NaiveTime { secs: self.time.secs.max(o.time.secs) } },
        }
    }
    fn min(self, o: Self) -> Self {
        match self.date.cmp(&o.date) {
            Ordering::Less => self,
            Ordering::Greater => o,
            Ordering::Equal => NaiveDateTime { date: self.date, time: NaiveTime { secs: self.time.secs.min(o.time.secs) } },
        }
    }
}
impl Hash for NaiveDateTime {
    fn hash<H: Hasher>(&self, state: &mut H) {
        self.date.hash(state);
        self.time.hash(state);
    }
}
impl fmt::Debug for NaiveDateTime {
    fn fmt(&self, f: &mut fmt::Formatter<'_>) -> fmt::Result {
        write!(f, "{:?}T{:?}", self.date, self.time)
    }
}
impl fmt::Display for NaiveDateTime {
    fn fmt(&self, f: &mut fmt::Formatter<'_>) -> fmt::Result {
        write!(f, "{} {}", self.date, self.time)
    }
}
/// chrono's `DurationRound` for `NaiveDateTime` (second precision; spans that divide a day, so that
/// rounding the timestamp since 1970-01-01 00:00 is rounding the time of day). As in chrono, dates
/// whose nanosecond timestamp does not fit an i64 (before 1677-09-21 / after 2262-04-11) are an error.
#[derive(Clone, Copy, Debug, PartialEq, Eq)]
pub enum RoundingError {
    DurationExceedsTimestamp,
    DurationExceedsLimit,
    TimestampExceedsLimit,
}

impl fmt::Display for RoundingError {
    fn fmt(&self, f: &mut fmt::Formatter<'_>) -> fmt::Result {
        write!(f, "{self:?}")
    }
}

impl std::error::Error for RoundingError {}

pub trait DurationRound: Sized {
    type Err: std::error::Error;
    fn duration_round(self, duration: TimeDelta) -> Result<Self, Self::Err>;
    fn duration_trunc(self, duration: TimeDelta) -> Result<Self, Self::Err>;
}

impl NaiveDateTime {
    fn round_prepare(self, duration: TimeDelta) -> Result<(i64, SymInt), RoundingError> {
        let span = duration.secs.as_const().unwrap_or_else(|| panic!("vrt: unsupported symbolic rounding span"));
        if span <= 0 {
            return Err(RoundingError::DurationExceedsLimit);
        }
        if DAY % span != 0 {
            panic!("vrt: unsupported rounding span {span} s (does not divide a day)");
        }
        let lo = NaiveDate::from_real(rc::NaiveDate::from_ymd_opt(1677, 9, 22).unwrap());
        let hi = NaiveDate::from_real(rc::NaiveDate::from_ymd_opt(2262, 4, 10).unwrap());
        if self.date < lo || self.date > hi {
            let lo2 = NaiveDate::from_real(rc::NaiveDate::from_ymd_opt(1677, 9, 21).unwrap());
            let hi2 = NaiveDate::from_real(rc::NaiveDate::from_ymd_opt(2262, 4, 11).unwrap());
            if self.date == lo2 || self.date == hi2 {
                panic!("vrt: unsupported rounding on the boundary day of the i64 nanosecond range");
            }
            return Err(RoundingError::TimestampExceedsLimit);
        }
        Ok((span, self.time.secs.mod_const(span)))
    }
}

impl DurationRound for NaiveDateTime {
    type Err = RoundingError;

    fn duration_round(self, duration: TimeDelta) -> Result<Self, RoundingError> {
        let (span, down) = self.round_prepare(duration)?;
        if vrt::decide(down.eq(SymInt::Const(0))) {
            return Ok(self);
        }
        // nearest multiple, ties go up (chrono: `if delta_up <= delta_down { +up } else { -down }`)
        let up = SymInt::Const(span).sub(down);
        let delta = if vrt::decide(up.le(down)) { up } else { SymInt::Const(0).sub(down) };
        Ok(self.shifted(delta).expect("rounding stays in range"))
    }

    fn duration_trunc(self, duration: TimeDelta) -> Result<Self, RoundingError> {
        let (_, down) = self.round_prepare(duration)?;
        Ok(self.shifted(SymInt::Const(0).sub(down)).expect("truncation stays in range"))
    }
}

impl Add<TimeDelta> for NaiveDateTime {
    type Output = NaiveDateTime;
    fn add(self, d: TimeDelta) -> NaiveDateTime {
        self.checked_add_signed(d).expect("`NaiveDateTime + TimeDelta` overflowed")
    }
}
impl Sub<TimeDelta> for NaiveDateTime {
    type Output = NaiveDateTime;
    fn sub(self, d: TimeDelta) -> NaiveDateTime {
        self.checked_sub_signed(d).expect("`NaiveDateTime - TimeDelta` overflowed")
    }
}
impl Sub<NaiveDateTime> for NaiveDateTime {
    type Output = TimeDelta;
    fn sub(self, o: NaiveDateTime) -> TimeDelta {
        self.signed_duration_since(o)
    }
}

// ------------------------------------------------------------------------------------------------
// Time zones
// ------------------------------------------------------------------------------------------------

pub trait Offset: Sized + Clone + fmt::Debug {
    fn fix(&self) -> FixedOffset;
}

/// Offset east of UTC in (possibly symbolic) seconds.
#[derive(Clone, Copy)]
pub struct FixedOffset {
    east: SymInt,
}

impl FixedOffset {
    pub fn east_opt(secs: i32) -> Option<FixedOffset> {
        if -86_400 < secs && secs < 86_400 {
            Some(FixedOffset { east: SymInt::Const(secs as i64) })
        } else {
            None
        }
    }
    pub fn west_opt(secs: i32) -> Option<FixedOffset> {
        Self::east_opt(-secs)
    }
    /// Shim-only: symbolic offset (caller constrains it to (-86400, 86400)).
    pub fn from_sym_east(east: SymInt) -> Self {
        FixedOffset { east }
    }
    pub fn sym_east(&self) -> SymInt {
        self.east
    }
    pub fn local_minus_utc(&self) -> i32 {
        vrt::concretize(self.east, -86_399, 86_399) as i32
    }
    pub fn utc_minus_local(&self) -> i32 {
        -self.local_minus_utc()
    }
}
impl fmt::Debug for FixedOffset {
    fn fmt(&self, f: &mut fmt::Formatter<'_>) -> fmt::Result {
        write!(f, "UTC+{}s", self.east.text())
    }
}
impl PartialEq for FixedOffset {
    fn eq(&self, o: &Self) -> bool {
        vrt::decide(self.east.eq(o.east))
    }
}
impl Eq for FixedOffset {}
impl Offset for FixedOffset {
    fn fix(&self) -> FixedOffset {
        *self
    }
}

#[derive(Clone, Debug, PartialEq, Eq)]
pub enum LocalResult<T> {
    None,
    Single(T),
    Ambiguous(T, T),
}
pub type MappedLocalTime<T> = LocalResult<T>;

impl<T> LocalResult<T> {
    pub fn single(self) -> Option<T> {
        match self {
            LocalResult::Single(t) => Some(t),
            _ => None,
        }
    }
    pub fn earliest(self) -> Option<T> {
        match self {
            LocalResult::Single(t) | LocalResult::Ambiguous(t, _) => Some(t),
            _ => None,
        }
    }
    pub fn latest(self) -> Option<T> {
        match self {
            LocalResult::Single(t) | LocalResult::Ambiguous(_, t) => Some(t),
            _ => None,
        }
    }
    pub fn map<U, F: FnMut(T) -> U>(self, mut f: F) -> LocalResult<U> {
        match self {
            LocalResult::None => LocalResult::None,
            LocalResult::Single(v) => LocalResult::Single(f(v)),
            LocalResult::Ambiguous(a, b) => LocalResult::Ambiguous(f(a), f(b)),
        }
    }
    pub fn unwrap(self) -> T {
        match self {
            LocalResult::Single(t) => t,
            LocalResult::None => panic!("No such local time"),
            LocalResult::Ambiguous(..) => panic!("Ambiguous local time"),
        }
    }
}

pub trait TimeZone: Sized + Clone {
    type Offset: Offset;

    fn from_offset(offset: &Self::Offset) -> Self;
    fn offset_from_local_datetime(&self, local: &NaiveDateTime) -> LocalResult<Self::Offset>;
    fn offset_from_utc_datetime(&self, utc: &NaiveDateTime) -> Self::Offset;

    fn from_local_datetime(&self, local: &NaiveDateTime) -> LocalResult<DateTime<Self>> {
        self.offset_from_local_datetime(local).map(|offset| {
            let utc = local
                .checked_sub_signed(TimeDelta { secs: offset.fix().east })
                .expect("local time out of range");
            DateTime { utc, offset }
        })
    }
    fn from_utc_datetime(&self, utc: &NaiveDateTime) -> DateTime<Self> {
        DateTime { utc: *utc, offset: self.offset_from_utc_datetime(utc) }
    }
    fn with_ymd_and_hms(&self, y: i32, m: u32, d: u32, h: u32, mi: u32, s: u32) -> LocalResult<DateTime<Self>> {
        match NaiveDate::from_ymd_opt(y, m, d).and_then(|d| d.and_hms_opt(h, mi, s)) {
            Some(dt) => self.from_local_datetime(&dt),
            None => LocalResult::None,
        }
    }
}

#[derive(Clone, Copy, Debug, PartialEq, Eq, Hash)]
pub struct Utc;

impl Offset for Utc {
    fn fix(&self) -> FixedOffset {
        FixedOffset { east: SymInt::Const(0) }
    }
}
impl TimeZone for Utc {
    type Offset = Utc;
    fn from_offset(_: &Utc) -> Utc {
        Utc
    }
    fn offset_from_local_datetime(&self, _: &NaiveDateTime) -> LocalResult<Utc> {
        LocalResult::Single(Utc)
    }
    fn offset_from_utc_datetime(&self, _: &NaiveDateTime) -> Utc {
        Utc
    }
}
impl TimeZone for FixedOffset {
    type Offset = FixedOffset;
    fn from_offset(o: &FixedOffset) -> FixedOffset {
        *o
    }
    fn offset_from_local_datetime(&self, _: &NaiveDateTime) -> LocalResult<FixedOffset> {
        LocalResult::Single(*self)
    }
    fn offset_from_utc_datetime(&self, _: &NaiveDateTime) -> FixedOffset {
        *self
    }
}

pub struct DateTime<Tz: TimeZone> {
    utc: NaiveDateTime,
    offset: Tz::Offset,
}

impl<Tz: TimeZone> Clone for DateTime<Tz> {
    fn clone(&self) -> Self {
        DateTime { utc: self.utc, offset: self.offset.clone() }
    }
}

impl<Tz: TimeZone> DateTime<Tz> {
    pub fn from_naive_utc_and_offset(utc: NaiveDateTime, offset: Tz::Offset) -> Self {
        DateTime { utc, offset }
    }
    pub fn naive_utc(&self) -> NaiveDateTime {
        self.utc
    }
    /// Seconds since 1970-01-01T00:00Z (concretises a symbolic instant).
    pub fn timestamp(&self) -> i64 {
        self.utc.and_utc_timestamp()
    }
    pub fn date_naive(&self) -> NaiveDate {
        self.naive_local().date()
    }
    pub fn time(&self) -> NaiveTime {
        self.naive_local().time()
    }
    pub fn fixed_offset(&self) -> DateTime<FixedOffset> {
        DateTime { utc: self.utc, offset: self.offset.fix() }
    }
    pub fn to_utc(&self) -> DateTime<Utc> {
        DateTime { utc: self.utc, offset: Utc }
    }
    pub fn naive_local(&self) -> NaiveDateTime {
        self.utc
            .checked_add_signed(TimeDelta { secs: self.offset.fix().east })
            .expect("local time out of range")
    }
    pub fn offset(&self) -> &Tz::Offset {
        &self.offset
    }
    pub fn timezone(&self) -> Tz {
        Tz::from_offset(&self.offset)
    }
    pub fn with_timezone<Tz2: TimeZone>(&self, tz: &Tz2) -> DateTime<Tz2> {
        tz.from_utc_datetime(&self.utc)
    }
    pub fn checked_add_signed(self, d: TimeDelta) -> Option<DateTime<Tz>> {
        let utc = self.utc.checked_add_signed(d)?;
        let tz = self.timezone();
        Some(tz.from_utc_datetime(&utc))
    }
    pub fn checked_sub_signed(self, d: TimeDelta) -> Option<DateTime<Tz>> {
        let utc = self.utc.checked_sub_signed(d)?;
        let tz = self.timezone();
        Some(tz.from_utc_datetime(&utc))
    }
    pub fn signed_duration_since<Tz2: TimeZone>(self, o: DateTime<Tz2>) -> TimeDelta {
        self.utc.signed_duration_since(o.utc)
    }
}

impl<Tz: TimeZone> fmt::Debug for DateTime<Tz> {
    fn fmt(&self, f: &mut fmt::Formatter<'_>) -> fmt::Result {
        write!(f, "{:?}Z{:?}", self.utc, self.offset)
    }
}
impl<Tz: TimeZone, Tz2: TimeZone> PartialEq<DateTime<Tz2>> for DateTime<Tz> {
    fn eq(&self, o: &DateTime<Tz2>) -> bool {
        self.utc == o.utc
    }
}
impl<Tz: TimeZone> Eq for DateTime<Tz> {}
impl<Tz: TimeZone, Tz2: TimeZone> PartialOrd<DateTime<Tz2>> for DateTime<Tz> {
    fn partial_cmp(&self, o: &DateTime<Tz2>) -> Option<Ordering> {
        Some(self.utc.cmp(&o.utc))
    }
    fn lt(&self, o: &DateTime<Tz2>) -> bool {
        self.utc.lt(&o.utc)
    }
    fn le(&self, o: &DateTime<Tz2>) -> bool {
        self.utc.le(&o.utc)
    }
    fn gt(&self, o: &DateTime<Tz2>) -> bool {
        self.utc.gt(&o.utc)
    }
    fn ge(&self, o: &DateTime<Tz2>) -> bool {
        self.utc.ge(&o.utc)
    }
}
impl<Tz: TimeZone> Ord for DateTime<Tz> {
    fn cmp(&self, o: &Self) -> Ordering {
        self.utc.cmp(&o.utc)
    }
}
impl<Tz: TimeZone> Add<TimeDelta> for DateTime<Tz> {
    type Output = DateTime<Tz>;
    fn add(self, d: TimeDelta) -> DateTime<Tz> {
        self.checked_add_signed(d).expect("`DateTime + TimeDelta` overflowed")
    }
}
impl<Tz: TimeZone> Sub<TimeDelta> for DateTime<Tz> {
    type Output = DateTime<Tz>;
    fn sub(self, d: TimeDelta) -> DateTime<Tz> {
        self.checked_sub_signed(d).expect("`DateTime - TimeDelta` overflowed")
    }
}
impl<Tz: TimeZone, Tz2: TimeZone> Sub<DateTime<Tz2>> for DateTime<Tz> {
    type Output = TimeDelta;
    fn sub(self, o: DateTime<Tz2>) -> TimeDelta {
        self.utc.signed_duration_since(o.utc)
    }
}

#[allow(dead_code)]
fn _unused(_: SymBool) {}


// chrono implements `+ FixedOffset` / `- FixedOffset` on naive types (local time from UTC and back)
impl Add<FixedOffset> for NaiveDateTime {
    type Output = NaiveDateTime;
    fn add(self, o: FixedOffset) -> NaiveDateTime {
        self.checked_add_signed(TimeDelta { secs: o.east }).expect("`NaiveDateTime + FixedOffset` out of range")
    }
}
impl Sub<FixedOffset> for NaiveDateTime {
    type Output = NaiveDateTime;
    fn sub(self, o: FixedOffset) -> NaiveDateTime {
        self.checked_sub_signed(TimeDelta { secs: o.east }).expect("`NaiveDateTime - FixedOffset` out of range")
    }
}
impl Add<FixedOffset> for NaiveTime {
    type Output = NaiveTime;
    fn add(self, o: FixedOffset) -> NaiveTime {
        self + TimeDelta { secs: o.east }
    }
}
impl Sub<FixedOffset> for NaiveTime {
    type Output = NaiveTime;
    fn sub(self, o: FixedOffset) -> NaiveTime {
        self - TimeDelta { secs: o.east }
    }
}
impl NaiveDateTime {
    pub fn checked_add_offset(self, o: FixedOffset) -> Option<NaiveDateTime> {
        self.checked_add_signed(TimeDelta { secs: o.east })
    }
    pub fn checked_sub_offset(self, o: FixedOffset) -> Option<NaiveDateTime> {
        self.checked_sub_signed(TimeDelta { secs: o.east })
    }
}
