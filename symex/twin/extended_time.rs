//! SYMBOLIC TWIN of opening-hours-syntax/src/extended_time.rs (engine S of /verif).
//!
//! Same public API; the value is a minute counter `0..=2880` held as a `vrt::SymInt`. Engine K
//! (Kani harnesses c19_*) proves that the real `ExtendedTime` behaves exactly like this minute
//! counter over its whole domain, so substituting it preserves the meaning of all client code.
//! Comparisons on symbolic values fork through the solver (`vrt::decide*`).

use std::cmp::Ordering;
use std::convert::TryInto;
use std::fmt::{Debug, Display};
use std::hash::{Hash, Hasher};

use chrono::NaiveTime;
use vrt::{SymBool, SymInt};

#[derive(Clone, Copy)]
pub struct ExtendedTime {
    mins: SymInt,
}

impl ExtendedTime {
    pub const MIDNIGHT_00: Self = Self { mins: SymInt::Const(0) };
    pub const MIDNIGHT_24: Self = Self { mins: SymInt::Const(24 * 60) };
    pub const MIDNIGHT_48: Self = Self { mins: SymInt::Const(48 * 60) };

    #[inline]
    pub const fn new(hour: u8, minute: u8) -> Option<Self> {
        if hour > 48 || minute > 59 || (hour == 48 && minute > 0) {
            None
        } else {
            Some(Self { mins: SymInt::Const(hour as i64 * 60 + minute as i64) })
        }
    }

    /// Twin-only constructor: a symbolic minute count, constrained by the caller to `0..=2880`.
    pub fn from_sym(mins: SymInt) -> Self {
        Self { mins }
    }

    /// Twin-only accessor.
    pub fn sym_mins(self) -> SymInt {
        self.mins
    }

    /// Accessors that return primitives concretise the minute count on this path (bisection over
    /// 00:00..=48:00, forking over every feasible value).
    fn concrete(self, _what: &str) -> i64 {
        vrt::concretize(self.mins, 0, 2880)
    }

    pub fn hour(self) -> u8 {
        (self.concrete("hour()") / 60) as u8
    }

    pub fn minute(self) -> u8 {
        (self.concrete("minute()") % 60) as u8
    }

    pub fn add_minutes(self, minutes: i16) -> Option<Self> {
        let res = self.mins.add_const(minutes as i64);
        let in_range = SymInt::Const(0).le(res).and(res.le(SymInt::Const(2880)));
        if vrt::decide(in_range) {
            Some(Self { mins: res })
        } else {
            None
        }
    }

    pub fn add_hours(self, hours: i8) -> Option<Self> {
        let res = self.mins.add_const(60 * hours as i64);
        let in_range = SymInt::Const(0).le(res).and(res.le(SymInt::Const(2880)));
        if vrt::decide(in_range) {
            Some(Self { mins: res })
        } else {
            None
        }
    }

    pub fn mins_from_midnight(self) -> u16 {
        self.concrete("mins_from_midnight()") as u16
    }

    pub fn from_mins_from_midnight(minute: u16) -> Option<Self> {
        if minute <= 2880 {
            Some(Self { mins: SymInt::Const(minute as i64) })
        } else {
            None
        }
    }
}

impl PartialEq for ExtendedTime {
    fn eq(&self, other: &Self) -> bool {
        vrt::decide(self.mins.eq(other.mins))
    }
}

impl Eq for ExtendedTime {}

impl PartialOrd for ExtendedTime {
    fn partial_cmp(&self, other: &Self) -> Option<Ordering> {
        Some(self.cmp(other))
    }
    fn lt(&self, other: &Self) -> bool {
        vrt::decide(self.mins.lt(other.mins))
    }
    fn le(&self, other: &Self) -> bool {
        vrt::decide(self.mins.le(other.mins))
    }
    fn gt(&self, other: &Self) -> bool {
        vrt::decide(self.mins.gt(other.mins))
    }
    fn ge(&self, other: &Self) -> bool {
        vrt::decide(self.mins.ge(other.mins))
    }
}

impl Ord for ExtendedTime {
    fn cmp(&self, other: &Self) -> Ordering {
        vrt::decide_cmp(self.mins, other.mins)
    }
    // `max` / `min` return a value, not a decision: no fork, an if-then-else term instead.
    fn max(self, other: Self) -> Self {
        Self { mins: self.mins.max(other.mins) }
    }
    fn min(self, other: Self) -> Self {
        Self { mins: self.mins.min(other.mins) }
    }
}

impl Hash for ExtendedTime {
    fn hash<H: Hasher>(&self, state: &mut H) {
        match self.mins.as_const() {
            Some(n) => n.hash(state),
            None => panic!("vrt: unsupported hash of a symbolic ExtendedTime"),
        }
    }
}

impl Display for ExtendedTime {
    fn fmt(&self, f: &mut std::fmt::Formatter<'_>) -> std::fmt::Result {
        match self.mins.as_const() {
            Some(n) => write!(f, "{:02}:{:02}", n / 60, n % 60),
            None => write!(f, "<{}>", self.mins.text()),
        }
    }
}

impl Debug for ExtendedTime {
    fn fmt(&self, f: &mut std::fmt::Formatter) -> std::result::Result<(), std::fmt::Error> {
        write!(f, "{self}")
    }
}

impl TryInto<NaiveTime> for ExtendedTime {
    type Error = ();

    fn try_into(self) -> Result<NaiveTime, Self::Error> {
        if vrt::decide(self.mins.lt(SymInt::Const(24 * 60))) {
            Ok(NaiveTime::from_sym_secs(self.mins.mul_const(60)))
        } else {
            Err(())
        }
    }
}

impl From<NaiveTime> for ExtendedTime {
    fn from(time: NaiveTime) -> ExtendedTime {
        Self { mins: time.sym_secs().div_floor_const(60) }
    }
}

#[allow(dead_code)]
fn _unused(_: SymBool) {}
