//! C02 / C03 / C08 / C16 (S part) — the interval stream, state and next_change against the
//! pointwise daily schedules, on windows of concrete days with symbolic times of day, symbolic
//! time span end-points and symbolic rule kinds.
use std::sync::Arc;

use chrono::{NaiveDate, NaiveDateTime};
use opening_hours::{Context, DateTimeRange, OpeningHours};
use opening_hours_syntax::rules::RuleOperator;
use opening_hours_syntax::RuleKind;
use vrt::{SymBool, SymInt};

use crate::c01::op_tag;
use crate::c14::view;
use crate::exprs::*;
use crate::glue::*;
use crate::Template;

const SECS: i64 = 86_400;

fn eff(code: SymInt) -> SymInt {
    SymInt::ite(code.eq(SymInt::Const(-1)), SymInt::Const(0), code)
}

/// Kind code the daily schedule of `day` gives to the second `sec` of that day.
fn sched_kind(oh: &OpeningHours, day: NaiveDate, sec: SymInt) -> SymInt {
    let v = view(&oh.schedule_at(day));
    eff(crate::c14::kind_at(&v, sec.div_floor_const(60)))
}

fn day_after(day: NaiveDate, n: i64) -> NaiveDate {
    day + chrono::TimeDelta::days(n)
}

struct Itv {
    start: SymInt,
    end: SymInt,
    kind: RuleKind,
    comments: Vec<Arc<str>>,
    end_dt: NaiveDateTime,
}

fn collect(it: impl Iterator<Item = DateTimeRange>, cap: usize) -> (Vec<Itv>, bool) {
    let mut out = vec![];
    let mut truncated = false;
    for dtr in it {
        if out.len() >= cap {
            truncated = true;
            break;
        }
        out.push(Itv {
            start: instant_of(dtr.range.start),
            end: instant_of(dtr.range.end),
            kind: dtr.kind,
            comments: dtr.comments.iter().cloned().collect(),
            end_dt: dtr.range.end,
        });
    }
    (out, truncated)
}

/// Interval stream over the window [from, to) = [(first_day, fs), (first_day + ndays, ts)).
pub fn stream(specs: &[RuleSpec], first_off: i64, ndays: i64) {
    let (expr, _models) = build_expr(specs);
    let oh = OpeningHours::verif_from_expression(expr, context());
    let d0 = probe_day(first_off);
    let fs = vrt::fresh_int("from_s", 0, SECS - 1);
    let ts = vrt::fresh_int("to_s", 0, SECS - 1);
    let from = datetime(d0, fs);
    let to = datetime(day_after(d0, ndays), ts);
    let (from_i, to_i) = (instant_of(from), instant_of(to));
    let (its, truncated) = collect(oh.iter_range(from, to), 64);
    vrt::note(format!("stream of {} intervals", its.len()));
    vrt::check("stream: bounded number of intervals", SymBool::Const(!truncated));
    let nonempty_window = from_i.lt(to_i);
    // an empty window yields nothing
    vrt::check("stream: empty window yields no interval", nonempty_window.or(SymBool::Const(its.is_empty())));
    vrt::check("stream: non-empty window yields intervals", nonempty_window.implies(SymBool::Const(!its.is_empty())));
    if its.is_empty() {
        return;
    }
    vrt::check("stream: first interval starts at `from`", its[0].start.eq(from_i));
    vrt::check("stream: last interval ends at `to`", its[its.len() - 1].end.eq(to_i));
    vrt::check("stream: intervals non-empty", SymBool::all(its.iter().map(|i| i.start.lt(i.end))));
    vrt::check("stream: gap-free and increasing", SymBool::all(its.windows(2).map(|w| w[0].end.eq(w[1].start))));
    vrt::check("stream: consecutive intervals have different states", SymBool::Const(its.windows(2).all(|w| w[0].kind != w[1].kind)));
    // pointwise: the interval containing t has the kind the daily schedule gives to t
    let sec = vrt::fresh_int("t_s", 0, SECS - 1);
    for k in 0..=ndays {
        let day = day_after(d0, k);
        let t = instant_of(datetime(day, sec));
        let inside = from_i.le(t).and(t.lt(to_i));
        let mut got = SymInt::Const(-2);
        for i in its.iter().rev() {
            got = SymInt::ite(i.start.le(t).and(t.lt(i.end)), SymInt::Const(kind_code(i.kind)), got);
        }
        let want = sched_kind(&oh, day, sec);
        vrt::check("stream: state of each interval is the state the daily schedule gives to every instant inside it", inside.implies(got.eq(want)));
    }
    // C17: the first interval carries the comments of the schedule period containing `from`
    let v0: Vec<_> = oh.schedule_at(d0).into_iter().collect();
    let fm = fs.div_floor_const(60);
    for tr in v0 {
        let (s, e) = (mins_of(tr.range.start), mins_of(tr.range.end));
        let cs: Vec<Arc<str>> = tr.comments.iter().cloned().collect();
        vrt::check(
            "comments: first interval carries the comments of the schedule period containing the start instant",
            s.le(fm).and(fm.lt(e)).implies(SymBool::Const(cs == its[0].comments)),
        );
    }
}

/// Selectors after which the iterator reaches 10000-01-01 in few steps when the state no longer
/// changes (year-bounded, single dates, the two-day holiday calendar): `next_change == None` can be
/// exercised on them without walking three million days one by one.
fn short_walk(specs: &[RuleSpec]) -> bool {
    specs.iter().all(|s| {
        matches!(
            s.sel,
            Sel::Y2024 | Sel::Y2024Jun12 | Sel::Y2024Jun10To12 | Sel::Y2024Jun | Sel::Y2025 | Sel::YStep2 | Sel::Ph | Sel::Jun12 | Sel::Jun11To13
        )
    })
}

/// state / is_* / next_change at a symbolic instant of a concrete day. Changes up to `full` days
/// ahead are checked against every day in between; farther ones on the first `full` days only.
pub fn point_queries(specs: &[RuleSpec], off: i64, full: i64) {
    let (expr, _models) = build_expr(specs);
    let oh = OpeningHours::verif_from_expression(expr, context());
    let d0 = probe_day(off);
    let s0 = vrt::fresh_int("t_s", 0, SECS - 1);
    let t = datetime(d0, s0);
    let t_i = instant_of(t);
    let st = oh.state(t);
    let st_code = SymInt::Const(kind_code(st));
    vrt::check("state: equals the state the schedule of t's day gives to t", sched_kind(&oh, d0, s0).eq(st_code));
    let (o, c, u) = (oh.is_open(t), oh.is_closed(t), oh.is_unknown(t));
    vrt::check("state: is_open / is_closed / is_unknown are exactly its three cases", SymBool::Const((o, c, u) == (st == RuleKind::Open, st == RuleKind::Closed, st == RuleKind::Unknown)));
    // The same iterator, bounded to 8 days: tells whether the state changes soon.
    let (probe, _) = collect(oh.iter_range(t, datetime(day_after(d0, 8), s0)), 8);
    if probe.len() < 2 && !short_walk(specs) {
        // constant for 8 days and selectors without far-reaching hints: next_change would walk day by
        // day up to year 9999 (bounded but long); outside the explored bound, see evidence
        vrt::note("next_change skipped: no change within 8 days, unbounded day-by-day walk");
        return;
    }
    let nc = oh.next_change(t);
    let sec = vrt::fresh_int("u_s", 0, SECS - 1);
    match nc {
        Some(change) => {
            let c_i = instant_of(change);
            let span = (change.date() - d0).num_days();
            vrt::note(format!("next_change on day +{span}"));
            vrt::check("next_change: strictly after t", t_i.lt(c_i));
            if probe.len() >= 2 {
                vrt::check("next_change: equals the end of the first interval of the bounded stream", probe[0].end.eq(c_i));
            }
            // never later: the state at the returned instant differs
            let at = sched_kind(&oh, change.date(), secs_of(change.time()));
            vrt::check("next_change: the state differs at the returned instant", at.ne(st_code));
            // never earlier: every instant in [t, change) has the state of t
            for k in 0..=span.min(full) {
                let day = day_after(d0, k);
                let x = instant_of(datetime(day, sec));
                vrt::check("next_change: no earlier change", t_i.le(x).and(x.lt(c_i)).implies(sched_kind(&oh, day, sec).eq(st_code)));
            }
            if span > full {
                for k in 1..=2 {
                    let day = day_after(change.date(), -k);
                    let x = instant_of(datetime(day, sec));
                    vrt::check("next_change: no earlier change", t_i.le(x).and(x.lt(c_i)).implies(sched_kind(&oh, day, sec).eq(st_code)));
                }
            }
        }
        None => {
            vrt::note("next_change none");
            vrt::check("next_change: none only if the bounded stream shows no change", SymBool::Const(probe.len() < 2));
            // none only when the state stays the same: checked on the first `full` days
            for k in 0..=full {
                let day = day_after(d0, k);
                let x = instant_of(datetime(day, sec));
                vrt::check("next_change: none only if the state never changes (explored horizon)", t_i.le(x).implies(sched_kind(&oh, day, sec).eq(st_code)));
            }
        }
    }
}

/// C16: with an interval-size bound B the answers are the exact ones or none.
pub fn bounded(specs: &[RuleSpec], off: i64, min_days: i64, max_days: i64) {
    let (expr, _models) = build_expr(specs);
    let oh = OpeningHours::verif_from_expression(expr, context());
    let b = vrt::fresh_int("bound_s", min_days * SECS, max_days * SECS);
    let ctx: Context = context().approx_bound_interval_size(delta(b));
    let ohb = oh.clone().with_context(ctx);
    let d0 = probe_day(off);
    let s0 = vrt::fresh_int("t_s", 0, SECS - 1);
    let t = datetime(d0, s0);
    let t_i = instant_of(t);
    vrt::check("bound: state is unchanged", SymBool::Const(oh.state(t) == ohb.state(t)));
    // Exact answer from the unbounded evaluator, looked for on a window longer than any admitted B
    // (same iterator as next_change, but it cannot walk to year 9999 when nothing changes).
    let (probe, _) = collect(oh.iter_range(t, datetime(day_after(d0, max_days + 2), s0)), 4);
    let exact = if probe.len() >= 2 { Some(probe[0].end_dt) } else { None };
    // C08 with a bound in the context: reported intervals never leave the requested window
    let to = datetime(day_after(d0, max_days + 2), s0);
    let to_i = instant_of(to);
    let (clipped, _) = collect(ohb.iter_range(t, to), 8);
    for i in &clipped {
        vrt::check("bounds: no interval starts before the requested start (bounded context)", i.start.ge(t_i));
        vrt::check("bounds: no interval ends after the requested end (bounded context)", i.end.le(to_i));
    }
    let approx = ohb.next_change(t);
    vrt::note(format!("exact(within {} days) {:?} approx {:?}", max_days + 2, exact.map(|d| d.date()), approx.map(|d| d.date())));
    match (exact, approx) {
        (None, None) => {}
        // no change within max_days + 2 days > B: the bounded evaluator must answer none
        (None, Some(_)) => vrt::check("bound: none whenever the change is more than B away (or does not exist)", SymBool::FALSE),
        (Some(e), Some(a)) => {
            vrt::check("bound: a reported change is the exact one", instant_of(e).eq(instant_of(a)));
            let dist = instant_of(e).sub(t_i);
            vrt::check("bound: none whenever the change is more than B away", dist.le(b));
        }
        (Some(e), None) => {
            // none is allowed only when the exact change is more than B - 24h away
            let dist = instant_of(e).sub(t_i);
            vrt::check("bound: exact whenever the change is at most B - 24h away", dist.gt(b.add_const(-SECS)));
        }
    }
}

/// C08: behaviour at and beyond the supported date range.
pub fn date_bounds(specs: &[RuleSpec], which: usize) {
    let (expr, _models) = build_expr(specs);
    let oh = OpeningHours::verif_from_expression(expr, context());
    let s0 = vrt::fresh_int("t_s", 0, SECS - 1);
    let s1 = vrt::fresh_int("to_s", 0, SECS - 1);
    let date_end = instant_of(datetime(date(10_000, 1, 1), SymInt::Const(0)));
    let date_start = instant_of(datetime(date(1900, 1, 1), SymInt::Const(0)));
    let (d_from, d_to) = match which {
        0 => (date(1899, 12, 30), date(1900, 1, 2)),
        1 => (date(9999, 12, 30), date(10_000, 1, 2)),
        2 => (date(1700, 3, 1), date(1700, 3, 3)),
        3 => (date(12_000, 3, 1), date(12_000, 3, 3)),
        // years congruent to 2024 modulo 2^16 (a 16-bit year conversion would wrap into the range)
        5 => (date(2024 - 65_536, 6, 11), date(2024 - 65_536, 6, 13)),
        6 => (date(2024 + 65_536, 6, 11), date(2024 + 65_536, 6, 13)),
        7 => (date(2024 - 2 * 65_536, 6, 11), date(2024 - 2 * 65_536, 6, 13)),
        _ => (date(9999, 12, 31), date(9999, 12, 31)),
    };
    let from = datetime(d_from, s0);
    let to = datetime(d_to, s1);
    let (from_i, to_i) = (instant_of(from), instant_of(to));
    // closed outside the range
    let st = oh.state(from);
    vrt::check("bounds: closed before 1900 and from 10000 on", from_i.lt(date_start).or(from_i.ge(date_end)).implies(SymBool::Const(st == RuleKind::Closed)));
    let (its, truncated) = collect(oh.iter_range(from, to), 64);
    vrt::check("bounds: bounded number of intervals", SymBool::Const(!truncated));
    let lim = to_i.min(date_end);
    for i in &its {
        vrt::check("bounds: no interval starts before the requested start", i.start.ge(from_i));
        vrt::check("bounds: no interval ends after min(requested end, 10000-01-01)", i.end.le(lim));
        vrt::check("bounds: intervals outside the supported range are closed", i.end.le(date_start).or(i.start.ge(date_end)).implies(SymBool::Const(i.kind == RuleKind::Closed)));
    }
    if !its.is_empty() {
        vrt::check("bounds: stream is gap-free", SymBool::all(its.windows(2).map(|w| w[0].end.eq(w[1].start))));
        vrt::check("bounds: stream starts at the requested start", from_i.lt(lim).implies(its[0].start.eq(from_i)));
        vrt::check("bounds: stream covers up to min(to, 10000-01-01)", from_i.lt(lim).implies(its[its.len() - 1].end.eq(lim)));
    }
    // pointwise inside the window: the interval containing an instant has the kind the daily schedule gives it
    // (closed outside the supported range); a jump over 1900-01-01 or a late start at 10000 shows here
    let ps = vrt::fresh_int("p_s", 0, SECS - 1);
    let ndays = days_between(d_to, d_from);
    for k in 0..=ndays {
        let day = day_after(d_from, k);
        let t = instant_of(datetime(day, ps));
        let inside = from_i.le(t).and(t.lt(lim));
        let mut got = SymInt::Const(-2);
        for i in its.iter().rev() {
            got = SymInt::ite(i.start.le(t).and(t.lt(i.end)), SymInt::Const(kind_code(i.kind)), got);
        }
        let want = sched_kind(&oh, day, ps);
        vrt::check("bounds: inside the window every interval has the state the daily schedule gives (closed outside 1900..9999)", inside.implies(got.eq(want)));
    }
    // next_change never at or beyond 10000-01-01; from before 1900 it is the first non-closed instant
    // (asked only when the 8-day stream shows a change, or at/after the end of the range where the
    // answer is immediate: otherwise the evaluator walks day by day up to year 9999)
    let (probe, _) = collect(oh.iter_range(from, datetime(day_after(d_from, 8), s0)), 4);
    if probe.len() < 2 && (which == 0 || which == 2 || which == 5 || which == 7) {
        vrt::note("next_change skipped: closed on the 8-day window");
        return;
    }
    match oh.next_change(from) {
        Some(c) => {
            let c_i = instant_of(c);
            vrt::check("bounds: next_change never returns an instant at or beyond 10000-01-01", c_i.lt(date_end));
            vrt::check("bounds: next_change strictly after t", from_i.lt(c_i));
            if which == 0 || which == 2 || which == 5 || which == 7 {
                vrt::check("bounds: from before 1900 next_change is not before 1900-01-01T00:00", from_i.lt(date_start).implies(c_i.ge(date_start)));
                let at = sched_kind(&oh, c.date(), secs_of(c.time()));
                vrt::check("bounds: from before 1900 the returned instant is not closed", from_i.lt(date_start).implies(at.ne(SymInt::Const(0))));
            }
        }
        None => {}
    }
}

fn spec(op: RuleOperator, kind: KindSpec, sel: Sel, spans: Vec<SpanSpec>, comments: Vec<&'static str>) -> RuleSpec {
    RuleSpec { op, kind, sel, spans, comments }
}

const OPS: [RuleOperator; 3] = [RuleOperator::Normal, RuleOperator::Additional, RuleOperator::Fallback];

/// Expression family for the stream / point-query suites.
pub fn family(thorough: bool) -> Vec<(String, Vec<RuleSpec>)> {
    let n = RuleOperator::Normal;
    let mut out: Vec<(String, Vec<RuleSpec>)> = vec![];
    let sels: Vec<Sel> = if thorough {
        vec![
            Sel::Empty, Sel::TuWe, Sel::Tu, Sel::We, Sel::Fr, Sel::WeTh, Sel::Th, Sel::MoSu, Sel::Y2024, Sel::Jun, Sel::Jun12, Sel::Jun11To13, Sel::Y2024Jun12,
            Sel::Y2024Jun10To12, Sel::Week24, Sel::Ph, Sel::Jul, Sel::Y2024Jun, Sel::Y2025, Sel::YStep2, Sel::Su2, Sel::Dec20ToJun12, Sel::Jun13ToJan10, Sel::Week23To24,
        ]
    } else {
        vec![Sel::Empty, Sel::TuWe, Sel::We, Sel::Th, Sel::Y2024, Sel::Jun12, Sel::Y2024Jun12, Sel::Week24, Sel::Ph, Sel::Jul, Sel::Y2024Jun, Sel::Dec20ToJun12, Sel::Jun13ToJan10]
    };
    // single rule: every selector, free span / full day / two spans
    for sel in sels.iter().copied() {
        out.push((format!("one_{sel:?}_free"), vec![spec(n, KindSpec::Any, sel, vec![SpanSpec::Free], vec!["c0"])]));
        out.push((format!("one_{sel:?}_full"), vec![spec(n, KindSpec::Any, sel, vec![SpanSpec::FullDay], vec!["c0"])]));
        if thorough {
            out.push((format!("one_{sel:?}_two"), vec![spec(n, KindSpec::Any, sel, vec![SpanSpec::Free, SpanSpec::Within], vec!["c0"])]));
        }
    }
    // two rules: operators x selector pairs
    let pairs: Vec<(Sel, Sel)> = if thorough {
        let mut p = vec![];
        for a in [Sel::Empty, Sel::TuWe, Sel::We, Sel::Jun12, Sel::Ph, Sel::Week24, Sel::Y2024, Sel::Jul] {
            for b in [Sel::Empty, Sel::We, Sel::Th, Sel::Jun12, Sel::Y2024Jun12, Sel::Jul] {
                p.push((a, b));
            }
        }
        p.push((Sel::TuWe, Sel::Y2025));
        p.push((Sel::We, Sel::Fr));
        p.push((Sel::Dec20ToJun12, Sel::We));
        p.push((Sel::Empty, Sel::Jun13ToJan10));
        p
    } else {
        vec![
            (Sel::Empty, Sel::Empty), (Sel::Empty, Sel::We), (Sel::TuWe, Sel::Empty), (Sel::We, Sel::Th), (Sel::Jun12, Sel::Empty), (Sel::Empty, Sel::Jun12),
            (Sel::Ph, Sel::Empty), (Sel::Week24, Sel::We), (Sel::Y2024, Sel::Jul), (Sel::TuWe, Sel::Y2025), (Sel::We, Sel::Fr), (Sel::Jul, Sel::We),
        ]
    };
    for op in OPS {
        for (a, b) in pairs.iter().copied() {
            out.push((
                format!("two_{}_{a:?}_{b:?}", op_tag(op)),
                vec![spec(n, KindSpec::Any, a, vec![SpanSpec::Free], vec!["c0"]), spec(op, KindSpec::Any, b, vec![SpanSpec::Free], vec!["c1"])],
            ));
            // full-day variants exercise the `trivially constant` shortcut and immutable full-day hints
            out.push((
                format!("twofd_{}_{a:?}_{b:?}", op_tag(op)),
                vec![spec(n, KindSpec::Any, a, vec![SpanSpec::Free], vec!["c0"]), spec(op, KindSpec::Any, b, vec![SpanSpec::FullDay], vec![])],
            ));
            if thorough {
                out.push((
                    format!("fdtwo_{}_{a:?}_{b:?}", op_tag(op)),
                    vec![spec(n, KindSpec::Any, a, vec![SpanSpec::FullDay], vec![]), spec(op, KindSpec::Any, b, vec![SpanSpec::Free], vec!["c1"])],
                ));
                out.push((
                    format!("fdfd_{}_{a:?}_{b:?}", op_tag(op)),
                    vec![spec(n, KindSpec::Any, a, vec![SpanSpec::FullDay], vec![]), spec(op, KindSpec::Any, b, vec![SpanSpec::FullDay], vec![])],
                ));
            }
        }
    }
    // three rules ending in a full-day fallback: the `trivially constant` shortcut must look at every
    // earlier rule, not only at the one before the fallback
    let closed = KindSpec::Is(RuleKind::Closed);
    for (a, b) in [(Sel::MoFr, Sel::Th), (Sel::We, Sel::Empty), (Sel::Empty, Sel::We), (Sel::TuWe, Sel::Fr)] {
        for mid_op in [RuleOperator::Normal, RuleOperator::Additional, RuleOperator::Fallback] {
            out.push((
                format!("threefb_{}_{a:?}_{b:?}", op_tag(mid_op)),
                vec![
                    spec(n, KindSpec::NonClosed, a, vec![SpanSpec::Free], vec!["c0"]),
                    spec(mid_op, closed, b, vec![SpanSpec::FullDay], vec![]),
                    spec(RuleOperator::Fallback, KindSpec::Any, Sel::Empty, vec![SpanSpec::FullDay], vec![]),
                ],
            ));
        }
    }
    out.reverse();
    out
}

pub fn templates_stream(thorough: bool) -> Vec<Template> {
    let mut out = vec![];
    for (id, sp) in family(thorough) {
        let windows: &[(i64, i64)] = if thorough { &[(-1, 3), (-3, 2)] } else { &[(-1, 3)] };
        for (first, nd) in windows.iter().copied() {
            let sp = sp.clone();
            let desc = format!("iter_range over [2024-06-{} + from_s, +{} days + to_s) of: {}", 12 + first, nd, describe(&sp));
            out.push(Template::new(format!("{id}@{first}+{nd}"), desc, move || stream(&sp, first, nd)));
        }
    }
    out
}

pub fn templates_point(thorough: bool) -> Vec<Template> {
    let mut out = vec![];
    for (id, sp) in family(thorough) {
        let offs: &[i64] = if thorough { &[0, 1] } else { &[0] };
        for off in offs.iter().copied() {
            let sp = sp.clone();
            let desc = format!("state / next_change at 2024-06-{} + t_s of: {}", 12 + off, describe(&sp));
            out.push(Template::new(format!("{id}@{off}"), desc, move || point_queries(&sp, off, 400)));
        }
    }
    out
}

/// C04 / C16: the largest bounds a context accepts (up to TimeDelta::MAX) behave like no bound.
pub fn huge_bound(specs: &[RuleSpec]) {
    let (expr, _models) = build_expr(specs);
    let oh = OpeningHours::verif_from_expression(expr, context());
    let max_secs = i64::MAX / 1000;
    let b = vrt::fresh_int("bound_s", max_secs - 3 * SECS, max_secs);
    let ohb = oh.clone().with_context(context().approx_bound_interval_size(delta(b)));
    let d0 = probe_day(0);
    let s0 = vrt::fresh_int("t_s", 0, SECS - 1);
    let t = datetime(d0, s0);
    vrt::check("bound: state is unchanged", SymBool::Const(oh.state(t) == ohb.state(t)));
    let (probe, _) = collect(oh.iter_range(t, datetime(day_after(d0, 8), s0)), 4);
    if probe.len() >= 2 {
        let approx = ohb.next_change(t);
        vrt::check("bound: exact whenever the change is at most B - 24h away", SymBool::Const(approx.is_some()));
        if let Some(a) = approx {
            vrt::check("bound: a reported change is the exact one", instant_of(a).eq(probe[0].end));
        }
    }
}

/// C04: a zero or negative bound is still a bound a caller can pass: range iteration terminates
/// (every interval starts strictly after the previous one) and state is unchanged.
pub fn tiny_bound(specs: &[RuleSpec]) {
    let (expr, _models) = build_expr(specs);
    let oh = OpeningHours::verif_from_expression(expr, context());
    let b = vrt::fresh_int("bound_s", -3 * SECS, 0);
    let ohb = oh.clone().with_context(context().approx_bound_interval_size(delta(b)));
    let d0 = probe_day(0);
    let s0 = vrt::fresh_int("t_s", 0, SECS - 1);
    let t = datetime(d0, s0);
    vrt::check("bound: state is unchanged", SymBool::Const(oh.state(t) == ohb.state(t)));
    let (got, truncated) = collect(ohb.iter_range(t, datetime(day_after(d0, 3), s0)), 24);
    vrt::check("totality: range iteration with a zero or negative bound terminates", SymBool::Const(!truncated));
    for w in got.windows(2) {
        vrt::check("totality: intervals of a bounded iteration make progress", w[0].start.lt(w[1].start));
    }
}

pub fn templates_bounded(thorough: bool) -> Vec<Template> {
    let mut out = vec![];
    {
        let n = RuleOperator::Normal;
        let sp = vec![spec(n, KindSpec::NonClosed, Sel::We, vec![SpanSpec::Free], vec![])];
        let desc = format!("interval-size bound in -3 days..=0 (symbolic seconds), iter_range over 3 days from 2024-06-12 + t_s of: {}", describe(&sp));
        out.push(Template::new("tiny_bound", desc, move || tiny_bound(&sp)));
    }
    {
        let n = RuleOperator::Normal;
        let sp = vec![spec(n, KindSpec::NonClosed, Sel::We, vec![SpanSpec::Free], vec![])];
        let desc = format!("interval-size bound within 3 days of TimeDelta::MAX, next_change at 2024-06-12 + t_s of: {}", describe(&sp));
        out.push(Template::new("huge_bound", desc, move || huge_bound(&sp)));
    }
    let max_days = if thorough { 9 } else { 5 };
    for (id, sp) in family(thorough) {
        // quick: single rules, a full-day second rule, the three-rule fallback shapes
        if !thorough && id.starts_with("two_") {
            continue;
        }
        let sp2 = sp.clone();
        let desc = format!("interval-size bound B in 1..={max_days} days (symbolic seconds), next_change at 2024-06-12 + t_s of: {}", describe(&sp));
        out.push(Template::new(format!("{id}@B"), desc, move || bounded(&sp2, 0, 1, max_days)));
    }
    out
}

pub fn templates_bounds(thorough: bool) -> Vec<Template> {
    let mut out = vec![];
    let n = RuleOperator::Normal;
    let exprs: Vec<(String, Vec<RuleSpec>)> = vec![
        ("always".into(), vec![spec(n, KindSpec::Any, Sel::Empty, vec![SpanSpec::FullDay], vec!["c0"])]),
        ("free".into(), vec![spec(n, KindSpec::Any, Sel::Empty, vec![SpanSpec::Free], vec!["c0"])]),
        ("mosu".into(), vec![spec(n, KindSpec::Any, Sel::MoSu, vec![SpanSpec::Free], vec![])]),
        ("fb".into(), vec![spec(n, KindSpec::Any, Sel::We, vec![SpanSpec::Free], vec![]), spec(RuleOperator::Fallback, KindSpec::Any, Sel::Empty, vec![SpanSpec::FullDay], vec![])]),
        ("jun".into(), vec![spec(n, KindSpec::Any, Sel::Jun, vec![SpanSpec::Free], vec![])]),
        // day selectors that wrap over new year and so "match" 1899-12-31 as well as 1900-01-01: a hint computed
        // from the eve of the supported range would jump over 1900-01-01
        ("dec20_jun12_full".into(), vec![spec(n, KindSpec::Any, Sel::Dec20ToJun12, vec![SpanSpec::FullDay], vec![])]),
        ("novfeb_full".into(), vec![spec(n, KindSpec::Any, Sel::NovFeb, vec![SpanSpec::FullDay], vec![])]),
        ("week52_02_full".into(), vec![spec(n, KindSpec::Any, Sel::Week52To02, vec![SpanSpec::FullDay], vec![])]),
        ("jun13_jan10_free".into(), vec![spec(n, KindSpec::Any, Sel::Jun13ToJan10, vec![SpanSpec::Free], vec![])]),
    ];
    let _ = thorough;
    for (id, sp) in exprs {
        for which in 0..8 {
            let sp = sp.clone();
            out.push(Template::new(format!("{id}#{which}"), format!("date-range bounds window #{which} of: {}", describe(&sp)), move || date_bounds(&sp, which)));
        }
    }
    out
}
