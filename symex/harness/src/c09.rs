//! C09 (S part) — time-zone contexts: the real `TzLocation` code (localize.rs) and the zone
//! plumbing of opening_hours.rs run against a stub zone with ONE arbitrary transition: UTC instant
//! X, offsets o1 -> o2, all symbolic (whole minutes, |o| <= 14h, |o2 - o1| bounded). The stub returns
//! None / Single / Ambiguous exactly as chrono's `TimeZone` contract prescribes.
//! Native replay uses the same stub on top of the real chrono `TimeZone` trait.
use chrono::{DateTime, NaiveDate, NaiveDateTime, TimeZone};
use opening_hours::localization::{Localize, TzLocation};
use opening_hours::{Context, OpeningHours};
use opening_hours_syntax::rules::RuleOperator;
use vrt::{SymBool, SymInt};

use crate::exprs::*;
use crate::glue::*;
use crate::Template;

const SECS: i64 = 86_400;

/// Base day of the local/UTC time axis used in the formulas: 2024-06-11 00:00 = 0.
fn base() -> NaiveDate {
    date(2024, 6, 11)
}

fn axis(dt: NaiveDateTime) -> SymInt {
    let days = days_between(dt.date(), base());
    SymInt::Const(days * SECS).add(secs_of(dt.time()))
}

#[derive(Clone, Copy, Debug)]
pub struct StubTz {
    /// UTC instant of the transition on the axis
    pub x: SymInt,
    pub o1: SymInt,
    pub o2: SymInt,
}

#[cfg(feature = "symbolic")]
mod zone {
    use super::*;
    use chrono::{FixedOffset, LocalResult, Offset};

    #[derive(Clone, Copy, Debug)]
    pub struct StubOffset {
        pub tz: StubTz,
        pub east: SymInt,
    }

    impl Offset for StubOffset {
        fn fix(&self) -> FixedOffset {
            FixedOffset::from_sym_east(self.east)
        }
    }

    impl TimeZone for StubTz {
        type Offset = StubOffset;

        fn from_offset(offset: &StubOffset) -> Self {
            offset.tz
        }

        fn offset_from_utc_datetime(&self, utc: &NaiveDateTime) -> StubOffset {
            let before = vrt::decide(axis(*utc).lt(self.x));
            StubOffset { tz: *self, east: if before { self.o1 } else { self.o2 } }
        }

        fn offset_from_local_datetime(&self, local: &NaiveDateTime) -> LocalResult<StubOffset> {
            let l = axis(*local);
            // candidate 1: the time is read with the old offset and lies before the transition
            let v1 = vrt::decide(l.sub(self.o1).lt(self.x));
            // candidate 2: read with the new offset, at or after the transition
            let v2 = vrt::decide(l.sub(self.o2).ge(self.x));
            let a = StubOffset { tz: *self, east: self.o1 };
            let b = StubOffset { tz: *self, east: self.o2 };
            match (v1, v2) {
                (true, true) => LocalResult::Ambiguous(a, b), // (earliest, latest)
                (true, false) => LocalResult::Single(a),
                (false, true) => LocalResult::Single(b),
                (false, false) => LocalResult::None,
            }
        }
    }

    pub fn utc_axis(dt: &DateTime<StubTz>) -> SymInt {
        axis(dt.naive_utc())
    }
}

#[cfg(not(feature = "symbolic"))]
mod zone {
    use super::*;
    use chrono::{FixedOffset, LocalResult, NaiveDate as ND, Offset};

    #[derive(Clone, Copy, Debug)]
    pub struct StubOffset {
        pub tz: StubTz,
        pub east: i32,
    }

    impl Offset for StubOffset {
        fn fix(&self) -> FixedOffset {
            FixedOffset::east_opt(self.east).expect("offset in range")
        }
    }

    fn c(v: SymInt) -> i64 {
        v.as_const().expect("native replay: concrete value")
    }

    impl TimeZone for StubTz {
        type Offset = StubOffset;

        fn from_offset(offset: &StubOffset) -> Self {
            offset.tz
        }

        #[allow(deprecated)]
        fn offset_from_local_date(&self, _local: &ND) -> LocalResult<StubOffset> {
            unimplemented!("date-only API is not used")
        }

        #[allow(deprecated)]
        fn offset_from_utc_date(&self, _utc: &ND) -> StubOffset {
            unimplemented!("date-only API is not used")
        }

        fn offset_from_utc_datetime(&self, utc: &NaiveDateTime) -> StubOffset {
            let before = c(axis(*utc)) < c(self.x);
            StubOffset { tz: *self, east: (if before { c(self.o1) } else { c(self.o2) }) as i32 }
        }

        fn offset_from_local_datetime(&self, local: &NaiveDateTime) -> LocalResult<StubOffset> {
            let l = c(axis(*local));
            let v1 = l - c(self.o1) < c(self.x);
            let v2 = l - c(self.o2) >= c(self.x);
            let a = StubOffset { tz: *self, east: c(self.o1) as i32 };
            let b = StubOffset { tz: *self, east: c(self.o2) as i32 };
            match (v1, v2) {
                (true, true) => LocalResult::Ambiguous(a, b),
                (true, false) => LocalResult::Single(a),
                (false, true) => LocalResult::Single(b),
                (false, false) => LocalResult::None,
            }
        }
    }

    pub fn utc_axis(dt: &DateTime<StubTz>) -> SymInt {
        axis(dt.naive_utc())
    }
}

pub use zone::utc_axis;

/// A zone with one symbolic transition within +-1 day of 2024-06-12 00:00 UTC; offsets are whole
/// minutes within +-14h and differ by at most `max_jump_min` minutes.
fn fresh_zone(tag: &str, max_jump_min: i64) -> StubTz {
    let xm = vrt::fresh_int(&format!("{tag}x_min"), 0, 3 * 1440);
    let o1m = vrt::fresh_int(&format!("{tag}o1_min"), -14 * 60, 14 * 60);
    let o2m = vrt::fresh_int(&format!("{tag}o2_min"), -14 * 60, 14 * 60);
    vrt::assume(o2m.sub(o1m).le(SymInt::Const(max_jump_min)).and(o1m.sub(o2m).le(SymInt::Const(max_jump_min))));
    StubTz { x: xm.mul_const(60), o1: o1m.mul_const(60), o2: o2m.mul_const(60) }
}

fn offset_at(z: &StubTz, utc: SymInt) -> SymInt {
    SymInt::ite(utc.lt(z.x), z.o1, z.o2)
}

fn naive_on_axis(min_total: SymInt) -> NaiveDateTime {
    // min_total minutes after base 00:00, anywhere in the three days around the transition window
    let day = min_total.div_floor_const(1440);
    let d = if vrt::decide(day.eq(SymInt::Const(0))) {
        0
    } else if vrt::decide(day.eq(SymInt::Const(1))) {
        1
    } else if vrt::decide(day.eq(SymInt::Const(2))) {
        2
    } else {
        3
    };
    let secs = min_total.sub(SymInt::Const(d * 1440)).mul_const(60);
    datetime(base() + chrono::TimeDelta::days(d), secs)
}

/// naive(): wall clock of the instant in the context zone, whatever zone the input was given in.
fn naive_is_wall_clock(max_jump: i64) {
    let ctx_zone = fresh_zone("z", max_jump);
    let in_zone = fresh_zone("in", max_jump);
    let loc = TzLocation::new(ctx_zone);
    let u_min = vrt::fresh_int("u_min", 0, 4 * 1440 - 1);
    let u_sec = vrt::fresh_int("u_sec", 0, 59);
    let utc = naive_on_axis(u_min) + delta(u_sec);
    let dt: DateTime<StubTz> = in_zone.from_utc_datetime(&utc);
    let u = axis(utc);
    let got = axis(loc.naive(dt));
    vrt::check("zone: naive() is the wall clock of the instant in the context zone", got.eq(u.add(offset_at(&ctx_zone, u))));
}

/// datetime(): maps a naive local time back; later instant in a fold; first valid instant after a gap.
fn datetime_maps_back(max_jump: i64) {
    let z = fresh_zone("z", max_jump);
    let loc = TzLocation::new(z);
    let n_min = vrt::fresh_int("n_min", 1440, 3 * 1440 - 1);
    let n = naive_on_axis(n_min);
    let l = axis(n);
    let r = loc.datetime(n);
    let ru = utc_axis(&r);
    let v1 = l.sub(z.o1).lt(z.x);
    let v2 = l.sub(z.o2).ge(z.x);
    // the result is an instant of the zone: its offset is the zone's offset at that instant
    let local_of_r = ru.add(offset_at(&z, ru));
    vrt::check("zone: datetime() of an existing wall-clock time has that wall-clock time", v1.or(v2).implies(local_of_r.eq(l)));
    vrt::check("zone: datetime() picks the later instant when the wall-clock time is ambiguous", v1.and(v2).implies(ru.eq(l.sub(z.o2))));
    vrt::check("zone: datetime() of a wall-clock time only valid before the transition", v1.and(v2.not()).implies(ru.eq(l.sub(z.o1))));
    // gap: first valid instant after it = the transition instant itself
    vrt::check("zone: datetime() of a skipped wall-clock time is the first valid instant after it", v1.not().and(v2.not()).implies(ru.eq(z.x)));
    vrt::check("zone: the returned wall-clock time is never before the requested one", local_of_r.ge(l));
}

/// A skipped wall-clock time maps to the first valid instant after it, however long the gap: a zone
/// that jumps from UTC-10h by `jump_min` minutes (Pacific/Apia skipped a whole day), every minute of
/// the gap (the minute is concretised by bisection, so the stepping loop runs on constants).
fn datetime_in_gap(jump_min: i64) {
    let x = 2000 * 60; // transition at base + 33h20 UTC
    let o1 = -600 * 60;
    let o2 = o1 + jump_min * 60;
    let z = StubTz { x: SymInt::Const(x), o1: SymInt::Const(o1), o2: SymInt::Const(o2) };
    let loc = TzLocation::new(z);
    // local minutes inside the gap: [x + o1, x + o2)
    let gap_lo = (x + o1) / 60;
    let k = vrt::fresh_int("n_min", gap_lo, gap_lo + jump_min - 1);
    let k = vrt::concretize(k, gap_lo, gap_lo + jump_min - 1);
    let n = naive_on_axis(SymInt::Const(k));
    let r = loc.datetime(n);
    vrt::check("zone: datetime() of a skipped wall-clock time is the first valid instant after it", utc_axis(&r).eq(z.x));
}

/// Monotonicity: n1 <= n2 implies datetime(n1) <= datetime(n2) in absolute time.
fn datetime_monotone(max_jump: i64) {
    let z = fresh_zone("z", max_jump);
    let loc = TzLocation::new(z);
    let a_min = vrt::fresh_int("a_min", 1440, 3 * 1440 - 1);
    let b_min = vrt::fresh_int("b_min", 1440, 3 * 1440 - 1);
    vrt::assume(a_min.le(b_min));
    let (a, b) = (naive_on_axis(a_min), naive_on_axis(b_min));
    let (ra, rb) = (loc.datetime(a), loc.datetime(b));
    // Across a fold wall-clock order and absolute order legitimately disagree (the later reading of
    // an ambiguous time is after the earlier reading of a later wall-clock time), so monotonicity is
    // demanded where the zone offset does not go back (gaps and plain offsets).
    vrt::check("zone: returned instants never go backwards in absolute time (no fold)", z.o1.le(z.o2).implies(utc_axis(&ra).le(utc_axis(&rb))));
    // with a fold: still monotone for two times on the same side of the ambiguity
    let la = axis(a);
    let lb = axis(b);
    let same_side = la.sub(z.o2).ge(z.x).or(lb.sub(z.o2).lt(z.x));
    vrt::check("zone: returned instants never go backwards in absolute time (same side of a fold)", z.o1.gt(z.o2).and(same_side).implies(utc_axis(&ra).le(utc_axis(&rb))));
}

fn spec(op: RuleOperator, kind: KindSpec, sel: Sel, spans: Vec<SpanSpec>) -> RuleSpec {
    RuleSpec { op, kind, sel, spans, comments: vec![] }
}

/// Evaluating with the zone context at an instant equals evaluating without location at that
/// instant's wall-clock time; returned instants are the zone instants of the naive results.
fn evaluation_equivalence(max_jump: i64, specs: &[RuleSpec]) {
    let z = fresh_zone("z", max_jump);
    let loc = TzLocation::new(z);
    let (expr, _m) = build_expr(specs);
    let plain = OpeningHours::verif_from_expression(expr.clone(), context());
    let ctx = Context::default().with_holidays(context().holidays).with_locale(loc.clone());
    let zoned = OpeningHours::verif_from_expression(expr, ctx);
    let u_min = vrt::fresh_int("u_min", 1440, 3 * 1440 - 1);
    let utc = naive_on_axis(u_min);
    let dt: DateTime<StubTz> = z.from_utc_datetime(&utc);
    let wall = loc.naive(dt.clone());
    vrt::check("zone: state equals the state without location at the wall-clock time", SymBool::Const(zoned.state(dt.clone()) == plain.state(wall)));
    // interval stream over one day: kinds equal those of the naive stream, bounds are its bounds mapped back
    let to: DateTime<StubTz> = z.from_utc_datetime(&(utc + chrono::TimeDelta::days(1)));
    let wall_to = loc.naive(to.clone());
    let zs: Vec<_> = zoned.iter_range(dt, to).take(24).collect();
    let ps: Vec<_> = plain.iter_range(wall, wall_to).take(24).collect();
    vrt::check("zone: same number of intervals as the evaluation on wall-clock time", SymBool::Const(zs.len() == ps.len()));
    for (a, b) in zs.iter().zip(ps.iter()) {
        vrt::check("zone: same interval states as the evaluation on wall-clock time", SymBool::Const(a.kind == b.kind));
        let want_start = loc.datetime(b.range.start);
        let want_end = loc.datetime(b.range.end);
        vrt::check("zone: interval bounds are the zone instants of the naive bounds", utc_axis(&a.range.start).eq(utc_axis(&want_start)).and(utc_axis(&a.range.end).eq(utc_axis(&want_end))));
    }
    if z_no_fold_known(&z) {
        for a in zs.iter() {
            vrt::check("zone: interval bounds never go backwards in absolute time", utc_axis(&a.range.start).le(utc_axis(&a.range.end)));
        }
        for w in zs.windows(2) {
            vrt::check("zone: consecutive intervals never go backwards in absolute time", utc_axis(&w[0].range.end).le(utc_axis(&w[1].range.start)));
        }
    }
}

/// Fork on whether the zone has a fold (offset going back) so that both cases are separate paths.
/// C11 (UTC event -> context-zone wall clock, localize.rs event_time): with coordinates, the time of
/// a sun event is the time of day, in the context zone, of the UTC instant the solar computation
/// returns for that date — whatever the zone offset, also when the local date differs from the
/// requested one and for instants before 1970. Symbolic: the UTC instant of each event (sunrise stub:
/// any second of the date), the zone (one transition). Native replay takes the instant from the real
/// `sunrise` computation at the same coordinates.
fn event_time_local(max_jump: i64, y: i32, m: u32, d: u32, lat: f64, lon: f64) {
    use opening_hours::localization::Coordinates;
    use opening_hours_syntax::rules::time::TimeEvent as Ev;
    let z = fresh_zone("z", max_jump);
    let coords = Coordinates::new(lat, lon).expect("valid coordinates");
    let loc = TzLocation::new(z).with_coords(coords);
    let day = date(y, m, d);
    for ev in [Ev::Dawn, Ev::Sunrise, Ev::Sunset, Ev::Dusk] {
        let u = axis(coords.event_time(day, ev).naive_utc());
        let want = u.add(offset_at(&z, u)).mod_const(SECS);
        let got = secs_of(loc.event_time(day, ev));
        vrt::check("events: event_time() is the time of day, in the context zone, of the UTC instant of the solar event", got.eq(want));
    }
    // without coordinates a zone context keeps the documented default times
    let plain = TzLocation::new(z);
    for (ev, h) in [(Ev::Dawn, 6), (Ev::Sunrise, 7), (Ev::Sunset, 19), (Ev::Dusk, 20)] {
        vrt::check("events: default event times without coordinates", secs_of(plain.event_time(day, ev)).eq(SymInt::Const(h * 3600)));
    }
}

fn z_no_fold_known(z: &StubTz) -> bool {
    vrt::decide(z.o1.le(z.o2))
}

pub fn templates(thorough: bool) -> Vec<Template> {
    let jump = if thorough { 180 } else { 65 };
    let mut out = vec![];
    out.push(Template::new("naive", format!("TzLocation::naive on a zone with one symbolic transition (offset jump <= {jump} min), input in another such zone"), move || naive_is_wall_clock(jump)));
    out.push(Template::new("datetime", format!("TzLocation::datetime on every wall-clock minute around one symbolic transition (gap / fold <= {jump} min)"), move || datetime_maps_back(jump)));
    // long gaps (zones that skipped many hours or a whole day): only wall-clock times inside the gap
    let long_gap = 1500;
    out.push(Template::new(
        "datetime_long_gap",
        format!("TzLocation::datetime of every skipped wall-clock minute of a {long_gap} min gap (zone jumping from UTC-10h)"),
        move || datetime_in_gap(long_gap),
    ));
    let mono_jump = if thorough { 65 } else { 12 };
    out.push(Template::new("monotone", format!("TzLocation::datetime is monotone (jump <= {mono_jump} min)"), move || datetime_monotone(mono_jump)));
    for (id, (y, m, d), (lat, lon)) in [("2024", (2024, 6, 12), (48.85, 2.35)), ("1960", (1960, 3, 10), (-17.5, 178.0)), ("2024b", (2024, 6, 13), (1.9, -157.4))] {
        out.push(Template::new(
            format!("event_time_{id}"),
            format!("TzLocation::event_time with coordinates ({lat}, {lon}) on {y}-{m:02}-{d:02}: any UTC instant of the date for each sun event, zone with one symbolic transition"),
            move || event_time_local(jump, y, m, d, lat, lon),
        ));
    }
    let n = RuleOperator::Normal;
    let small_jump = if thorough { 65 } else { 12 };
    use opening_hours_syntax::rules::time::TimeEvent as Ev;
    // concrete spans (07:00-19:00, 20:00-06:00 wrapping): the symbolic part is the zone and the instant
    let day = SpanSpec::Event(Ev::Sunrise, 0, Ev::Sunset, 0);
    let night = SpanSpec::Event(Ev::Dusk, 0, Ev::Dawn, 0);
    let exprs: Vec<(&str, Vec<RuleSpec>)> = vec![
        ("day", vec![spec(n, KindSpec::Is(opening_hours_syntax::RuleKind::Open), Sel::Empty, vec![day])]),
        ("we_night", vec![spec(n, KindSpec::Is(opening_hours_syntax::RuleKind::Unknown), Sel::We, vec![night])]),
        ("fb", vec![spec(n, KindSpec::Is(opening_hours_syntax::RuleKind::Open), Sel::We, vec![day]), spec(RuleOperator::Fallback, KindSpec::Is(opening_hours_syntax::RuleKind::Unknown), Sel::Empty, vec![SpanSpec::FullDay])]),
    ];
    for (id, sp) in exprs {
        if !thorough && id == "fb" {
            continue;
        }
        out.push(Template::new(
            format!("eval_{id}"),
            format!("state / iter_range with a zone context vs evaluation on wall-clock time (jump <= {small_jump} min) of: {}", describe(&sp)),
            move || evaluation_equivalence(small_jump, &sp),
        ));
    }
    out
}
