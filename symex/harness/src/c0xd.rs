//! Suites with SYMBOLIC DATES (day numbers): the date is an input variable ranging over a window of
//! years, the solver decides every day of the window at once.
//!  * c01d — dated ranges (`[year] Mon dd [offsets] - ...`, Easter): `filter` against the documented
//!    semantics (C01);
//!  * c02d — every selector kind: soundness of `next_change_hint` (C02, one inductive step);
//!  * c02e — expression level: every day strictly between a day and its hint has a constant full-day
//!    schedule that continues the state in which the day ends (what the iterator's jump relies on).
use chrono::{Datelike, NaiveDate, Weekday};
use opening_hours::verif_hooks::date_filter::DateFilter;
use opening_hours::OpeningHours;
use opening_hours_syntax::rules::day::{
    Date, DateOffset, DaySelector, HolidayKind, Month, MonthdayRange, WeekDayOffset, WeekDayRange, WeekNum, WeekRange, Year, YearRange,
};
use opening_hours_syntax::rules::RuleOperator;
use opening_hours_syntax::{ExtendedTime, RuleKind};
use vrt::{SymBool, SymInt};

use crate::exprs::*;
use crate::glue::*;
use crate::Template;

const WIN_LO: (i32, u32, u32) = (2019, 1, 1);
const WIN_HI: (i32, u32, u32) = (2025, 12, 31);

thread_local! {
    /// 0: 2019..=2025; 1: start of the supported range; 2: around 2100 (a century year that is not leap)
    static WINDOW: std::cell::Cell<u8> = const { std::cell::Cell::new(0) };
}

/// Window of the symbolic dates: 2019..=2025, or the start of the supported range (1899-11-01 ..
/// 1901-03-01) for the templates tagged `@1900`, or 2095-01-01..=2101-12-31 for those tagged `@2100`
/// (the 8 years without a Feb 29 around 2100).
fn window() -> (NaiveDate, NaiveDate) {
    match WINDOW.with(|w| w.get()) {
        1 => (date(1899, 11, 1), date(1901, 3, 1)),
        2 => (date(2095, 1, 1), date(2101, 12, 31)),
        _ => (date(WIN_LO.0, WIN_LO.1, WIN_LO.2), date(WIN_HI.0, WIN_HI.1, WIN_HI.2)),
    }
}

fn in_window<R>(mode: u8, f: impl FnOnce() -> R) -> R {
    WINDOW.with(|w| w.set(mode));
    let r = std::panic::catch_unwind(std::panic::AssertUnwindSafe(f));
    WINDOW.with(|w| w.set(0));
    match r {
        Ok(r) => r,
        Err(p) => std::panic::resume_unwind(p),
    }
}

fn month_num(m: Month) -> u32 {
    m as u32
}

fn month_len(y: i32, m: u32) -> u32 {
    match m {
        1 | 3 | 5 | 7 | 8 | 10 | 12 => 31,
        4 | 6 | 9 | 11 => 30,
        _ => {
            if (y % 4 == 0 && y % 100 != 0) || y % 400 == 0 {
                29
            } else {
                28
            }
        }
    }
}

/// Easter Sunday by Oudin's algorithm (independent of the implementation's anonymous Gregorian one).
fn easter_oudin(y: i32) -> NaiveDate {
    let g = y % 19;
    let c = y / 100;
    let h = (c - c / 4 - (8 * c + 13) / 25 + 19 * g + 15) % 30;
    let i = h - (h / 28) * (1 - (29 / (h + 1)) * ((21 - g) / 11));
    let j = (y + y / 4 + i + 2 - c + c / 4) % 7;
    let l = i - j;
    let month = 3 + (l + 40) / 44;
    let day = l + 28 - 31 * (month / 4);
    date(y, month as u32, day as u32)
}

#[derive(Clone, Copy, PartialEq, Eq)]
enum Clamp {
    /// a range start beyond the month length is the first day of the next month
    After,
    /// a range end beyond the month length is the last day of the month
    Before,
    /// a single date that does not exist matches no day
    None,
}

fn apply_offset(d: NaiveDate, off: &DateOffset) -> NaiveDate {
    let mut d = d + chrono::TimeDelta::days(off.day_offset);
    match off.wday_offset {
        WeekDayOffset::None => {}
        WeekDayOffset::Next(t) => {
            while d.weekday() != t {
                d = d + chrono::TimeDelta::days(1);
            }
        }
        WeekDayOffset::Prev(t) => {
            while d.weekday() != t {
                d = d - chrono::TimeDelta::days(1);
            }
        }
    }
    d
}

/// Occurrence of a date description in year `y` (None when it has another year or does not exist).
fn occurrence(dt: &Date, off: &DateOffset, y: i32, clamp: Clamp) -> Option<NaiveDate> {
    let base = match dt {
        Date::Easter { year } => {
            if year.map(|v| v as i32 != y).unwrap_or(false) {
                return None;
            }
            easter_oudin(y)
        }
        Date::Fixed { year, month, day } => {
            if year.map(|v| v as i32 != y).unwrap_or(false) {
                return None;
            }
            let m = month_num(*month);
            let len = month_len(y, m);
            if (*day as u32) <= len {
                date(y, m, *day as u32)
            } else {
                match clamp {
                    Clamp::None => return None,
                    Clamp::Before => date(y, m, len),
                    Clamp::After => date(y, m, len) + chrono::TimeDelta::days(1),
                }
            }
        }
    };
    Some(apply_offset(base, off))
}

fn date_year(d: &Date) -> Option<u16> {
    match d {
        Date::Fixed { year, .. } | Date::Easter { year } => *year,
    }
}

/// Documented meaning of a dated range as a list of closed intervals of concrete dates.
fn dated_intervals(start: &(Date, DateOffset), end: &(Date, DateOffset)) -> Vec<(NaiveDate, NaiveDate)> {
    let single = start.0 == end.0 && start.1 == end.1;
    let mut out = vec![];
    let (wlo, whi) = window();
    let years = (wlo.year() - 2)..=(whi.year() + 2);
    if single {
        for y in years {
            if let Some(d) = occurrence(&start.0, &start.1, y, Clamp::None) {
                out.push((d, d));
            }
        }
        return out;
    }
    for y in years {
        let Some(s) = occurrence(&start.0, &start.1, y, Clamp::After) else { continue };
        // the end is the first occurrence of the end description that is not before the start; an end
        // without a year takes the start's year, or the next one if it would precede the start
        let mut e = None;
        let end_years: Vec<i32> = match date_year(&end.0) {
            Some(ye) => vec![ye as i32],
            None => vec![y, y + 1],
        };
        for ye in end_years {
            if let Some(c) = occurrence(&end.0, &end.1, ye, Clamp::Before) {
                if c >= s {
                    e = Some(c);
                    break;
                }
            }
        }
        if let Some(e) = e {
            out.push((s, e));
        }
    }
    out
}

fn in_intervals(d: NaiveDate, ivs: &[(NaiveDate, NaiveDate)]) -> SymBool {
    let x = days_of(d);
    SymBool::any(ivs.iter().map(|(s, e)| days_of(*s).le(x).and(x.le(days_of(*e)))))
}

pub fn dated_filter(sel: &MonthdayRange) {
    let (lo, hi) = window();
    let d = fresh_date("d", lo, hi);
    let MonthdayRange::Date { start, end } = sel else { unreachable!() };
    let got = sel.filter(d, &context());
    let want = in_intervals(d, &dated_intervals(start, end));
    vrt::note(format!("filter -> {got}"));
    vrt::check("dated range: a day matches iff it lies between the start occurrence and the first end occurrence not before it", want.iff(SymBool::Const(got)));
}

fn md(day: u8, month: Month) -> (Date, DateOffset) {
    (Date::md(day, month), DateOffset::default())
}

fn ymd(day: u8, month: Month, year: u16) -> (Date, DateOffset) {
    (Date::ymd(day, month, year), DateOffset::default())
}

fn with_off(mut d: (Date, DateOffset), days: i64, wd: WeekDayOffset) -> (Date, DateOffset) {
    d.1 = DateOffset { wday_offset: wd, day_offset: days };
    d
}

pub fn dated_family(thorough: bool) -> Vec<(String, MonthdayRange)> {
    use Month::*;
    let mut out: Vec<(String, MonthdayRange)> = vec![];
    let mut push = |id: &str, start: (Date, DateOffset), end: (Date, DateOffset)| out.push((id.to_string(), MonthdayRange::Date { start, end }));
    // plain ranges without year
    push("mar28_apr16", md(28, March), md(16, April));
    push("dec24_jan06", md(24, December), md(6, January));
    push("jan01_dec31", md(1, January), md(31, December));
    push("jun12", md(12, June), md(12, June));
    push("feb29", md(29, February), md(29, February));
    push("feb29_mar05", md(29, February), md(5, March));
    push("feb20_feb29", md(20, February), md(29, February));
    push("apr31", md(31, April), md(31, April));
    push("apr31_may05", md(31, April), md(5, May));
    push("apr20_apr31", md(20, April), md(31, April));
    push("feb30", md(30, February), md(30, February));
    // with a year on the start (end inherits it) / on both
    push("y2021_mar28_apr16", ymd(28, March, 2021), md(16, April));
    push("y2021_dec24_jan06", ymd(24, December, 2021), md(6, January));
    push("y2021_mar28_y2022_jan05", ymd(28, March, 2021), ymd(5, January, 2022));
    push("y2020_feb29", ymd(29, February, 2020), ymd(29, February, 2020));
    push("y2021_jun12", ymd(12, June, 2021), ymd(12, June, 2021));
    push("y2021_feb29", ymd(29, February, 2021), ymd(29, February, 2021));
    push("y2020_mar01_feb29", ymd(1, March, 2020), md(29, February));
    push("y2024_dec24_feb29", ymd(24, December, 2024), md(29, February));
    push("dec31_p2", with_off(md(31, December), 2, WeekDayOffset::None), with_off(md(31, December), 2, WeekDayOffset::None));
    // open end written `Jun 12+` (the parser stores Dec 31 / 9999 Dec 31 as end)
    push("jun12_plus", md(12, June), md(31, December));
    push("y2021_jun12_plus", ymd(12, June, 2021), ymd(31, December, 9999));
    // Easter
    push("easter", (Date::Easter { year: None }, DateOffset::default()), (Date::Easter { year: None }, DateOffset::default()));
    push("easter_m2_p1", with_off((Date::Easter { year: None }, DateOffset::default()), -2, WeekDayOffset::None), with_off((Date::Easter { year: None }, DateOffset::default()), 1, WeekDayOffset::None));
    push("y2022_easter", (Date::Easter { year: Some(2022) }, DateOffset::default()), (Date::Easter { year: Some(2022) }, DateOffset::default()));
    // Easter against a fixed date INSIDE Easter's span (Mar 22..Apr 25): the two bounds swap order from year to
    // year (2019 Apr 21, 2020 Apr 12, 2021 Apr 4, 2022 Apr 17, 2023 Apr 9, 2024 Mar 31, 2025 Apr 20), so some years
    // wrap into the next one and two starts can share one end
    push("easter_apr10", (Date::Easter { year: None }, DateOffset::default()), md(10, April));
    push("apr10_easter", md(10, April), (Date::Easter { year: None }, DateOffset::default()));
    // offsets
    push("jan01_nextsu_p2", with_off(md(1, January), 2, WeekDayOffset::Next(Weekday::Sun)), with_off(md(1, January), 2, WeekDayOffset::Next(Weekday::Sun)));
    push("dec25_prevfr_dec31", with_off(md(25, December), 0, WeekDayOffset::Prev(Weekday::Fri)), md(31, December));
    if thorough {
        push("jan31_feb28", md(31, January), md(28, February));
        push("dec31_jan01", md(31, December), md(1, January));
        push("nov30_dec01", md(30, November), md(1, December));
        push("jun12_m40_p40", with_off(md(12, June), -40, WeekDayOffset::None), with_off(md(12, June), 40, WeekDayOffset::None));
        push("mar01_m1", with_off(md(1, March), -1, WeekDayOffset::None), with_off(md(1, March), -1, WeekDayOffset::None));
        push("y2024_feb29_mar01", ymd(29, February, 2024), ymd(1, March, 2024));
        push("easter_may01", (Date::Easter { year: None }, DateOffset::default()), md(1, May));
    }
    out
}

/// A day selector is the conjunction of its four groups, each group the disjunction of its entries,
/// an empty group places no constraint (the per-entry filters are decided by engine K / c01d).
pub fn selector_conjunction(sel: &DaySelector) {
    let (lo, hi) = window();
    let d = fresh_date("d", lo, hi);
    let ctx = context();
    let got = sel.filter(d, &ctx);
    let group = |empty: bool, any: bool| empty || any;
    let want = group(sel.year.is_empty(), sel.year.iter().any(|x| x.filter(d, &ctx)))
        && group(sel.monthday.is_empty(), sel.monthday.iter().any(|x| x.filter(d, &ctx)))
        && group(sel.week.is_empty(), sel.week.iter().any(|x| x.filter(d, &ctx)))
        && group(sel.weekday.is_empty(), sel.weekday.iter().any(|x| x.filter(d, &ctx)));
    vrt::check("dated range: a rule applies on a day iff the day satisfies all of its selector groups (each group: any of its entries)", SymBool::Const(got == want));
    let all_empty = sel.year.is_empty() && sel.monthday.is_empty() && sel.week.is_empty() && sel.weekday.is_empty();
    vrt::check("dated range: is_empty iff no group has an entry", SymBool::Const(sel.is_empty() == all_empty));
}

pub fn templates_dated(thorough: bool) -> Vec<Template> {
    let mut out: Vec<Template> = dated_family(thorough)
        .into_iter()
        .map(|(id, sel)| {
            let desc = format!("MonthdayRange::Date filter on every day 2019-01-01..=2025-12-31 of `{sel}`");
            Template::new(id, desc, move || dated_filter(&sel))
        })
        .collect();
    for (id, sel) in dated_family(thorough) {
        if !id.contains("feb29") || id.contains("y20") {
            continue;
        }
        let desc = format!("MonthdayRange::Date filter on every day 2095-01-01..=2101-12-31 of `{sel}`");
        out.push(Template::new(format!("{id}@2100"), desc, move || in_window(2, || dated_filter(&sel))));
    }
    for (id, sel) in selector_family(thorough) {
        if id.starts_with("dated_") && !thorough {
            continue;
        }
        let desc = format!("DaySelector conjunction of groups on every day 2019..=2025 of `{sel}`");
        out.push(Template::new(format!("conj_{id}"), desc, move || selector_conjunction(&sel)));
    }
    // all four groups at once, two entries in two of them
    use Month::*;
    let mut four = DaySelector::default();
    four.year.push(YearRange { range: Year(2020)..=Year(2022), step: 1 });
    four.year.push(YearRange { range: Year(2024)..=Year(2024), step: 1 });
    four.monthday.push(MonthdayRange::Month { range: June..=July, year: None });
    four.week.push(WeekRange { range: WeekNum(24)..=WeekNum(27), step: 1 });
    four.weekday.push(wd(Weekday::Mon, Weekday::Wed));
    four.weekday.push(WeekDayRange::Holiday { kind: HolidayKind::Public, offset: 0 });
    out.push(Template::new("conj_all_four_groups", format!("DaySelector conjunction of groups on every day 2019..=2025 of `{four}`"), move || selector_conjunction(&four)));
    let none = DaySelector::default();
    out.push(Template::new("conj_empty", "empty day selector matches every day".to_string(), move || selector_conjunction(&none)));
    out
}

// ------------------------------------------------------------------------------------------------
// c02d: selector hint lemma with symbolic dates
// ------------------------------------------------------------------------------------------------

pub fn hint_lemma(sel: &DaySelector, span_days: i64) {
    let (lo, hi) = window();
    let d = fresh_date("d", lo, hi);
    let k = vrt::fresh_int("gap", 1, span_days);
    let d2 = date_from_days(days_of(d).add(k));
    let ctx = context();
    match sel.next_change_hint(d, &ctx) {
        None => vrt::note("no hint"),
        Some(h) => {
            vrt::check("hint: strictly after the date", days_of(d).lt(days_of(h)));
            // only pairs with d < d2 < hint(d) are of interest
            vrt::assume(days_of(d2).lt(days_of(h)));
            let f1 = sel.filter(d, &ctx);
            let f2 = sel.filter(d2, &ctx);
            vrt::note(format!("filter(d)={f1} filter(d2)={f2}"));
            vrt::check("hint: no day strictly between a date and its hint changes the selector's answer", SymBool::Const(f1 == f2));
        }
    }
}

fn wd(a: Weekday, b: Weekday) -> WeekDayRange {
    WeekDayRange::Fixed { range: a..=b, offset: 0, nth_from_start: [true; 5], nth_from_end: [true; 5] }
}

pub fn selector_family(thorough: bool) -> Vec<(String, DaySelector)> {
    use Month::*;
    let mut out: Vec<(String, DaySelector)> = vec![];
    let ds = DaySelector::default;
    let mut push = |id: &str, f: &dyn Fn(&mut DaySelector)| {
        let mut s = ds();
        f(&mut s);
        out.push((id.to_string(), s));
    };
    // years
    push("y2021", &|s| s.year.push(YearRange { range: Year(2021)..=Year(2021), step: 1 }));
    push("y2020_2023", &|s| s.year.push(YearRange { range: Year(2020)..=Year(2023), step: 1 }));
    push("y2019_2025_s2", &|s| s.year.push(YearRange { range: Year(2019)..=Year(2025), step: 2 }));
    push("y2018_2030_s3", &|s| s.year.push(YearRange { range: Year(2018)..=Year(2030), step: 3 }));
    push("y2021_y2023", &|s| {
        s.year.push(YearRange { range: Year(2021)..=Year(2021), step: 1 });
        s.year.push(YearRange { range: Year(2023)..=Year(2023), step: 1 });
    });
    // months
    push("jun", &|s| s.monthday.push(MonthdayRange::Month { range: June..=June, year: None }));
    push("nov_feb", &|s| s.monthday.push(MonthdayRange::Month { range: November..=February, year: None }));
    push("jan_dec", &|s| s.monthday.push(MonthdayRange::Month { range: January..=December, year: None }));
    push("dec", &|s| s.monthday.push(MonthdayRange::Month { range: December..=December, year: None }));
    push("y2021_dec", &|s| s.monthday.push(MonthdayRange::Month { range: December..=December, year: Some(2021) }));
    push("y2021_mar_apr", &|s| s.monthday.push(MonthdayRange::Month { range: March..=April, year: Some(2021) }));
    // weeks
    push("week24", &|s| s.week.push(WeekRange { range: WeekNum(24)..=WeekNum(24), step: 1 }));
    push("week40_52", &|s| s.week.push(WeekRange { range: WeekNum(40)..=WeekNum(52), step: 1 }));
    push("week50_53", &|s| s.week.push(WeekRange { range: WeekNum(50)..=WeekNum(53), step: 1 }));
    push("week01_10", &|s| s.week.push(WeekRange { range: WeekNum(1)..=WeekNum(10), step: 1 }));
    push("week10_40_s3", &|s| s.week.push(WeekRange { range: WeekNum(10)..=WeekNum(40), step: 3 }));
    push("week53", &|s| s.week.push(WeekRange { range: WeekNum(53)..=WeekNum(53), step: 1 }));
    // holidays (calendar of `context()`: 2024-06-12, 2024-06-13)
    push("ph", &|s| s.weekday.push(WeekDayRange::Holiday { kind: HolidayKind::Public, offset: 0 }));
    push("ph_p1", &|s| s.weekday.push(WeekDayRange::Holiday { kind: HolidayKind::Public, offset: 1 }));
    push("ph_m2", &|s| s.weekday.push(WeekDayRange::Holiday { kind: HolidayKind::Public, offset: -2 }));
    push("sh", &|s| s.weekday.push(WeekDayRange::Holiday { kind: HolidayKind::School, offset: 0 }));
    // dated ranges
    for (id, sel) in dated_family(thorough) {
        out.push((format!("dated_{id}"), DaySelector { monthday: vec![sel], ..Default::default() }));
    }
    let mut push = |id: &str, f: &dyn Fn(&mut DaySelector)| {
        let mut s = ds();
        f(&mut s);
        out.push((id.to_string(), s));
    };
    // combinations (minimum of the group hints)
    push("y2021_jun", &|s| {
        s.year.push(YearRange { range: Year(2021)..=Year(2021), step: 1 });
        s.monthday.push(MonthdayRange::Month { range: June..=June, year: None });
    });
    push("jun_week24", &|s| {
        s.monthday.push(MonthdayRange::Month { range: June..=June, year: None });
        s.week.push(WeekRange { range: WeekNum(24)..=WeekNum(24), step: 1 });
    });
    push("y2020_2023_ph", &|s| {
        s.year.push(YearRange { range: Year(2020)..=Year(2024), step: 1 });
        s.weekday.push(WeekDayRange::Holiday { kind: HolidayKind::Public, offset: 0 });
    });
    push("dec_we", &|s| {
        s.monthday.push(MonthdayRange::Month { range: December..=December, year: None });
        s.weekday.push(wd(Weekday::Wed, Weekday::Wed));
    });
    push("jun_or_dec24_jan06", &|s| {
        s.monthday.push(MonthdayRange::Month { range: June..=June, year: None });
        s.monthday.push(MonthdayRange::Date { start: md(24, December), end: md(6, January) });
    });
    out
}

pub fn templates_hint(thorough: bool) -> Vec<Template> {
    let span = if thorough { 800 } else { 370 };
    let mut out: Vec<Template> = selector_family(thorough)
        .into_iter()
        .map(|(id, sel)| {
            let desc = format!("next_change_hint lemma for every d in 2019..=2025 and d2 in d+1..=d+{span} of day selector `{sel}`");
            Template::new(id, desc, move || hint_lemma(&sel, span))
        })
        .collect();
    // the same lemma at the start of the supported date range
    for (id, sel) in selector_family(thorough) {
        if !(id.starts_with("dated_") || id == "jun" || id == "week24" || id == "dec") {
            continue;
        }
        let desc = format!("next_change_hint lemma for every d in 1899-11-01..=1901-03-01 and d2 in d+1..=d+{span} of day selector `{sel}`");
        out.push(Template::new(format!("{id}@1900"), desc, move || in_window(1, || hint_lemma(&sel, span))));
    }
    // leap days around 2100: the next Feb 29 after 2096 is 8 years away (2100 is not a leap year)
    let long_span = 3300;
    for (id, sel) in selector_family(thorough) {
        if !id.contains("feb29") || id.contains("y20") {
            continue;
        }
        let desc = format!("next_change_hint lemma for every d in 2095..=2101 and d2 in d+1..=d+{long_span} of day selector `{sel}`");
        out.push(Template::new(format!("{id}@2100"), desc, move || in_window(2, || hint_lemma(&sel, long_span))));
    }
    out
}

// ------------------------------------------------------------------------------------------------
// c02e: expression-level hint lemma
// ------------------------------------------------------------------------------------------------

fn tiles(oh: &OpeningHours, d: NaiveDate) -> Vec<(ExtendedTime, ExtendedTime, RuleKind)> {
    oh.schedule_at(d).into_iter().map(|tr| (tr.range.start, tr.range.end, tr.kind)).collect()
}

pub fn expression_hint(rules: &[(DaySelector, Vec<(u16, u16)>, RuleKind, RuleOperator)], span_days: i64) {
    use opening_hours_syntax::rules::time::{TimeSelector, TimeSpan};
    use opening_hours_syntax::rules::{OpeningHoursExpression, RuleSequence};
    let rules: Vec<RuleSequence> = rules
        .iter()
        .map(|(ds, spans, kind, op)| RuleSequence {
            day_selector: ds.clone(),
            time_selector: TimeSelector::new(
                spans
                    .iter()
                    .map(|(s, e)| TimeSpan::fixed_range(ExtendedTime::from_mins_from_midnight(*s).unwrap(), ExtendedTime::from_mins_from_midnight(*e).unwrap()))
                    .collect(),
            ),
            kind: *kind,
            operator: *op,
            comments: Default::default(),
        })
        .collect();
    let oh = OpeningHours::verif_from_expression(OpeningHoursExpression { rules }, context());
    let (lo, hi) = window();
    let d = fresh_date("d", lo, hi);
    let k = vrt::fresh_int("gap", 1, span_days);
    let d2 = date_from_days(days_of(d).add(k));
    match oh.verif_next_change_hint(d) {
        None => vrt::note("no hint"),
        Some(h) => {
            vrt::check("expression hint: strictly after the date", days_of(d).lt(days_of(h)));
            vrt::assume(days_of(d2).lt(days_of(h)));
            let t1 = tiles(&oh, d);
            let t2 = tiles(&oh, d2);
            let last_kind = t1.last().map(|t| t.2).unwrap_or(RuleKind::Closed);
            let constant = t2.len() == 1 && t2[0].2 == last_kind;
            vrt::note(format!("day ends {last_kind:?}, skipped day has {} range(s)", t2.len()));
            vrt::check(
                "expression hint: every day strictly between a date and its hint is one full-day range continuing the state in which the date ends",
                SymBool::Const(constant),
            );
        }
    }
}

type RuleDesc = (DaySelector, Vec<(u16, u16)>, RuleKind, RuleOperator);

pub fn expression_family(thorough: bool) -> Vec<(String, Vec<RuleDesc>)> {
    use Month::*;
    use RuleKind::*;
    use RuleOperator::*;
    let sel = |f: &dyn Fn(&mut DaySelector)| {
        let mut s = DaySelector::default();
        f(&mut s);
        s
    };
    let empty = || DaySelector::default();
    let jun = || sel(&|s| s.monthday.push(MonthdayRange::Month { range: June..=June, year: None }));
    let y2021 = || sel(&|s| s.year.push(YearRange { range: Year(2021)..=Year(2021), step: 1 }));
    let y2021dec = || sel(&|s| s.monthday.push(MonthdayRange::Month { range: December..=December, year: Some(2021) }));
    let jul22 = || sel(&|s| s.monthday.push(MonthdayRange::Date { start: md(22, July), end: md(22, July) }));
    let dec24_jan06 = || sel(&|s| s.monthday.push(MonthdayRange::Date { start: md(24, December), end: md(6, January) }));
    let mofr = || sel(&|s| s.weekday.push(wd(Weekday::Mon, Weekday::Fri)));
    let sa = || sel(&|s| s.weekday.push(wd(Weekday::Sat, Weekday::Sat)));
    let ph = || sel(&|s| s.weekday.push(WeekDayRange::Holiday { kind: HolidayKind::Public, offset: 0 }));
    let week52 = || sel(&|s| s.week.push(WeekRange { range: WeekNum(40)..=WeekNum(52), step: 1 }));
    let full = vec![(0u16, 1440u16)];
    let mut out: Vec<(String, Vec<RuleDesc>)> = vec![
        ("always".into(), vec![(empty(), full.clone(), Open, Normal)]),
        ("jun_full".into(), vec![(jun(), full.clone(), Open, Normal)]),
        ("jun_part".into(), vec![(jun(), vec![(600, 1080)], Open, Normal)]),
        ("y2021_full".into(), vec![(y2021(), full.clone(), Unknown, Normal)]),
        ("y2021dec_full".into(), vec![(y2021dec(), full.clone(), Open, Normal)]),
        ("jul22_spill".into(), vec![(jul22(), vec![(240, 2880)], Open, Normal)]),
        ("jul22_wrap".into(), vec![(jul22(), vec![(1200, 120)], Open, Normal)]),
        ("mofr_fb_closed".into(), vec![(mofr(), vec![(600, 1080)], Open, Normal), (empty(), full.clone(), Closed, Fallback)]),
        ("su_closed_fb_open".into(), vec![(sa(), full.clone(), Closed, Normal), (empty(), full.clone(), Open, Fallback)]),
        ("always_ph_off".into(), vec![(empty(), full.clone(), Open, Normal), (ph(), full.clone(), Closed, Normal)]),
        ("week_full_jun".into(), vec![(week52(), full.clone(), Open, Normal), (jun(), full.clone(), Open, Normal)]),
        ("dec24_jan06_off".into(), vec![(empty(), full.clone(), Open, Normal), (dec24_jan06(), full.clone(), Closed, Normal)]),
        ("three_fb".into(), vec![(mofr(), vec![(480, 1080)], Open, Normal), (sa(), full.clone(), Closed, Normal), (empty(), full.clone(), Unknown, Fallback)]),
        ("jun_add_full".into(), vec![(jun(), vec![(600, 720)], Open, Normal), (empty(), full.clone(), Unknown, Additional)]),
    ];
    if thorough {
        out.push(("y2021_part_jun_full".into(), vec![(y2021(), vec![(0, 600)], Open, Normal), (jun(), full.clone(), Unknown, Additional)]));
        out.push(("jul22_ext_jun".into(), vec![(jul22(), vec![(0, 1500)], Open, Normal), (jun(), full.clone(), Open, Normal)]));
    }
    out
}

pub fn templates_expr_hint(thorough: bool) -> Vec<Template> {
    expression_family(thorough)
        .into_iter()
        .map(|(id, rules)| {
            // weekday selectors make the evaluator ask for the day of the month, which enumerates the
            // days of the window: a shorter look-ahead keeps those templates affordable
            let weekday_based = rules.iter().any(|r| !r.0.weekday.is_empty() && r.0.weekday.iter().any(|w| matches!(w, WeekDayRange::Fixed { .. })));
            let span = match (thorough, weekday_based) {
                (true, false) => 800,
                (true, true) => 40,
                (false, false) => 400,
                (false, true) => 9,
            };
            let desc = format!("OpeningHours::next_change_hint lemma for every d in 2019..=2025, d2 in d+1..=d+{span}, expression `{id}`");
            Template::new(id, desc, move || expression_hint(&rules, span))
        })
        .collect()
}
