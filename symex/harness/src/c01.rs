//! C01 (S part) — the schedule of one day follows the documented rule combination, for every
//! placement of the time span end-points; C17 — comments; C04 — no panic on any feasible path.
use std::sync::Arc;

use opening_hours::OpeningHours;
use opening_hours_syntax::rules::time::TimeEvent;
use opening_hours_syntax::rules::RuleOperator;
use opening_hours_syntax::RuleKind;
use vrt::{SymBool, SymInt};

use crate::c14::{invariant, view};
use crate::exprs::*;
use crate::Template;

fn eff(code: SymInt) -> SymInt {
    // nothing covering a minute means closed
    SymInt::ite(code.eq(SymInt::Const(-1)), SymInt::Const(0), code)
}

pub fn day_schedule(specs: &[RuleSpec], offset: i64, check_comments: bool) {
    let (expr, models) = build_expr(specs);
    let today: Vec<bool> = specs.iter().map(|s| s.sel.matches(offset)).collect();
    let yesterday: Vec<bool> = specs.iter().map(|s| s.sel.matches(offset - 1)).collect();
    let oh = OpeningHours::verif_from_expression(expr, context());
    let sched = oh.schedule_at(probe_day(offset));
    let v = view(&sched);
    let m = vrt::fresh_int("m", 0, DAY - 1);
    vrt::note(format!("schedule_at -> {} ranges", v.len()));
    vrt::check("day schedule: disjoint, increasing, non-empty ranges", invariant(&v));
    vrt::check("day schedule: ranges within 00:00..24:00", SymBool::all(v.iter().map(|x| SymInt::Const(0).le(x.0).and(x.1.le(SymInt::Const(DAY))))));
    let real = eff(crate::c14::kind_at(&v, m));
    let strict = day_semantics(&models, &today, &yesterday, Reading::Strict);
    let friendly = day_semantics(&models, &today, &yesterday, Reading::SpillFriendly);
    let a = eff(strict.kind_at(m));
    let b = eff(friendly.kind_at(m));
    vrt::check("day schedule: kind at every minute follows the documented rule combination", real.eq(a).or(real.eq(b)));
    if check_comments {
        comments(&v, &models, &strict, &friendly, &today, &yesterday);
    }
}

/// C17 on one day schedule.
fn comments(
    v: &[(SymInt, SymInt, RuleKind, Vec<Arc<str>>)],
    models: &[RuleModel],
    strict: &DayModel,
    friendly: &DayModel,
    today: &[bool],
    yesterday: &[bool],
) {
    let mut all: Vec<Arc<str>> = models.iter().flat_map(|m| m.comments.iter().cloned()).collect();
    all.sort();
    all.dedup();
    for (_, _, _, cs) in v {
        let sorted = cs.windows(2).all(|w| w[0] < w[1]);
        vrt::check("comments: sorted and free of duplicates", SymBool::Const(sorted));
        vrt::check("comments: all taken from rules of the expression", SymBool::Const(cs.iter().all(|c| all.contains(c))));
    }
    let contributes = (0..models.len()).any(|i| today[i] || yesterday[i]);
    if !contributes {
        vrt::check("comments: nothing reported on a day no rule contributes to", SymBool::Const(v.iter().all(|x| x.3.is_empty())));
    }
    // A period shown by exactly one rule, with no other rule's period touching or overlapping it,
    // carries exactly that rule's comments. Checked at a symbolic minute m2 of each real range: if in
    // both readings the range [start, end) lies inside a single span of rule i, rule i's layer shows
    // there, and no other rule has a span touching [start, end], the comments are rule i's.
    for (start, end, kind, cs) in v {
        if *kind == RuleKind::Closed {
            continue;
        }
        for (i, model) in models.iter().enumerate() {
            let Some(own) = rule_ranges(model, today[i], yesterday[i]) else { continue };
            let inside_own = SymBool::any(own.iter().map(|(lo, hi)| lo.le(*start).and(end.le(*hi))));
            let mut alone = SymBool::TRUE;
            for (j, other) in models.iter().enumerate() {
                if j == i {
                    continue;
                }
                if let Some(rs) = rule_ranges(other, today[j], yesterday[j]) {
                    // touches or overlaps: lo <= end && start <= hi (for a non-empty range clipped to the day)
                    for (lo, hi) in rs {
                        let lo_c = lo.max(SymInt::Const(0));
                        let hi_c = hi.min(SymInt::Const(DAY));
                        let nonempty = lo_c.lt(hi_c);
                        alone = alone.and(nonempty.and(lo_c.le(*end)).and(start.le(hi_c)).not());
                    }
                }
            }
            let shown_by_i = strict.rule_at(*start).eq(SymInt::Const(i as i64)).and(friendly.rule_at(*start).eq(SymInt::Const(i as i64)));
            let mut want: Vec<Arc<str>> = model.comments.clone();
            want.sort();
            want.dedup();
            let same = *cs == want;
            vrt::check(
                "comments: a period contributed by exactly one rule carries exactly that rule's comments",
                inside_own.and(alone).and(shown_by_i).implies(SymBool::Const(same)),
            );
        }
    }
}

fn spec(op: RuleOperator, kind: KindSpec, sel: Sel, spans: Vec<SpanSpec>, comments: Vec<&'static str>) -> RuleSpec {
    RuleSpec { op, kind, sel, spans, comments }
}

const OPS: [RuleOperator; 3] = [RuleOperator::Normal, RuleOperator::Additional, RuleOperator::Fallback];

/// Selectors realising every (yesterday, today) match pattern on Wednesday 2024-06-12.
const PATTERN_SELS: [Sel; 5] = [Sel::Empty, Sel::TuWe, Sel::Tu, Sel::We, Sel::Fr];

pub fn specs(thorough: bool) -> Vec<(String, Vec<RuleSpec>)> {
    let mut out: Vec<(String, Vec<RuleSpec>)> = vec![];
    let n = RuleOperator::Normal;
    // one rule: every selector pattern, one or two free spans, any kind
    for sel in PATTERN_SELS {
        for nspans in 1..=2 {
            out.push((format!("one_{sel:?}_{nspans}"), vec![spec(n, KindSpec::Any, sel, vec![SpanSpec::Free; nspans], vec!["c0"])]));
        }
        out.push((format!("one_{sel:?}_full"), vec![spec(n, KindSpec::Any, sel, vec![SpanSpec::FullDay], vec!["c0"])]));
    }
    out.push(("one_event".into(), vec![spec(n, KindSpec::Any, Sel::Empty, vec![SpanSpec::Event(TimeEvent::Sunrise, -30, TimeEvent::Sunset, 45)], vec![])]));
    for (tag, ev) in [("dawn", TimeEvent::Dawn), ("sunset", TimeEvent::Sunset), ("dusk", TimeEvent::Dusk)] {
        out.push((format!("one_eventfree_{tag}"), vec![spec(n, KindSpec::NonClosed, Sel::TuWe, vec![SpanSpec::EventFree(ev)], vec![])]));
    }
    out.push(("one_event_wrap".into(), vec![spec(n, KindSpec::Any, Sel::TuWe, vec![SpanSpec::Event(TimeEvent::Dusk, 0, TimeEvent::Dawn, 0), SpanSpec::Free], vec![])]));
    // two rules: every operator x selector pattern pair, free spans, any kinds
    for op in OPS {
        for s0 in PATTERN_SELS {
            for s1 in PATTERN_SELS {
                if !thorough && s0 == Sel::Fr && s1 == Sel::Fr {
                    continue;
                }
                out.push((
                    format!("two_{}_{s0:?}_{s1:?}", op_tag(op)),
                    vec![spec(n, KindSpec::Any, s0, vec![SpanSpec::Free], vec!["c0"]), spec(op, KindSpec::Any, s1, vec![SpanSpec::Free], vec!["c1"])],
                ));
            }
        }
    }
    // two rules, two spans in one of them (thorough) / shared comment
    for op in OPS {
        for (s0, s1) in [(Sel::Empty, Sel::Empty), (Sel::TuWe, Sel::We), (Sel::Tu, Sel::TuWe), (Sel::We, Sel::Tu)] {
            if thorough {
                out.push((
                    format!("two2_{}_{s0:?}_{s1:?}", op_tag(op)),
                    vec![spec(n, KindSpec::Any, s0, vec![SpanSpec::Free, SpanSpec::Free], vec!["c0"]), spec(op, KindSpec::Any, s1, vec![SpanSpec::Free], vec!["c0", "c1"])],
                ));
            }
            out.push((
                format!("twofd_{}_{s0:?}_{s1:?}", op_tag(op)),
                vec![spec(n, KindSpec::Any, s0, vec![SpanSpec::FullDay], vec![]), spec(op, KindSpec::Any, s1, vec![SpanSpec::Free], vec!["c1"])],
            ));
        }
    }
    // several comments per rule (the union of comment sets has more than the trivial branches)
    for op in OPS {
        out.push((
            format!("twocm_{}", op_tag(op)),
            vec![
                spec(n, KindSpec::NonClosed, Sel::Empty, vec![SpanSpec::Free], vec!["c", "d"]),
                spec(op, KindSpec::NonClosed, Sel::TuWe, vec![SpanSpec::Free], vec!["a", "b", "e"]),
            ],
        ));
        out.push((
            format!("twocm2_{}", op_tag(op)),
            vec![
                spec(n, KindSpec::NonClosed, Sel::TuWe, vec![SpanSpec::Free], vec!["a", "b", "e", "f"]),
                spec(op, KindSpec::NonClosed, Sel::Empty, vec![SpanSpec::Free], vec!["c", "d"]),
            ],
        ));
    }
    out.push((
        "threecm".into(),
        vec![
            spec(n, KindSpec::Is(RuleKind::Open), Sel::Empty, vec![SpanSpec::Within], vec!["c"]),
            spec(RuleOperator::Additional, KindSpec::Is(RuleKind::Open), Sel::Empty, vec![SpanSpec::Within], vec!["d", "e"]),
            spec(RuleOperator::Additional, KindSpec::Is(RuleKind::Open), Sel::Empty, vec![SpanSpec::Within], vec!["a", "b", "f"]),
        ],
    ));
    // three rules: operator pairs x a family of selector triples, kinds forked
    let triples: &[(Sel, Sel, Sel)] = if thorough {
        &[
            (Sel::Empty, Sel::Empty, Sel::Empty),
            (Sel::Empty, Sel::We, Sel::Tu),
            (Sel::TuWe, Sel::Tu, Sel::We),
            (Sel::We, Sel::TuWe, Sel::Empty),
            (Sel::Tu, Sel::We, Sel::Empty),
            (Sel::Fr, Sel::TuWe, Sel::We),
            (Sel::We, Sel::Fr, Sel::Tu),
            (Sel::Tu, Sel::Tu, Sel::We),
        ]
    } else {
        &[(Sel::Empty, Sel::We, Sel::Tu), (Sel::TuWe, Sel::Tu, Sel::We), (Sel::Tu, Sel::We, Sel::Empty)]
    };
    for op1 in OPS {
        for op2 in OPS {
            for (s0, s1, s2) in triples.iter().copied() {
                let k = if thorough { KindSpec::Any } else { KindSpec::NonClosed };
                out.push((
                    format!("three_{}{}_{s0:?}_{s1:?}_{s2:?}", op_tag(op1), op_tag(op2)),
                    vec![
                        spec(n, k, s0, vec![SpanSpec::Free], vec!["c0"]),
                        spec(op1, KindSpec::Any, s1, vec![SpanSpec::Free], vec!["c1"]),
                        spec(op2, k, s2, vec![SpanSpec::Free], vec!["c2"]),
                    ],
                ));
            }
        }
    }
    out
}

pub fn op_tag(op: RuleOperator) -> &'static str {
    match op {
        RuleOperator::Normal => "N",
        RuleOperator::Additional => "A",
        RuleOperator::Fallback => "F",
    }
}

pub fn templates(thorough: bool) -> Vec<Template> {
    let mut all = specs(thorough);
    // most expensive templates first (better balance over the worker processes)
    all.reverse();
    all.into_iter()
        .map(|(id, sp)| {
            let desc = format!("schedule_at(2024-06-12) of: {}", describe(&sp));
            Template::new(id, desc, move || day_schedule(&sp, 0, true))
        })
        .collect()
}
