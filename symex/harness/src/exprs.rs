//! Expression templates shared by the expression-level suites: concrete structure (operators, day
//! selectors with a known match pattern on the probe days, comments), symbolic time span end-points
//! and symbolic rule kinds.
#![allow(dead_code)]
use std::sync::Arc;

use chrono::{NaiveDate, Weekday};
use opening_hours_syntax::rules::day::{
    Date, DateOffset, DaySelector, HolidayKind, Month, MonthdayRange, WeekDayRange, WeekNum, WeekRange, Year, YearRange,
};
use opening_hours_syntax::rules::time::{Time, TimeEvent, TimeSelector, TimeSpan, VariableTime};
use opening_hours_syntax::rules::{OpeningHoursExpression, RuleOperator, RuleSequence};
use opening_hours_syntax::{ExtendedTime, RuleKind};
use vrt::{SymBool, SymInt};

use crate::glue::*;

pub const DAY: i64 = 1440;

#[derive(Clone, Copy, Debug, PartialEq, Eq)]
pub enum SpanSpec {
    /// start in 00:00..=24:00, end in 00:00..=48:00, both symbolic, any order (covers within-day,
    /// wrapping past midnight, extended and empty-today shapes: the solver forks the real code)
    Free,
    /// symbolic span inside the day: start < end <= 24:00
    Within,
    /// symbolic span that wraps past midnight: end <= start
    Wrap,
    /// symbolic extended span: end in 24:01..=48:00
    Extended,
    /// the literal 00:00-24:00 (what `24/7` and a missing time selector parse to)
    FullDay,
    /// event based start and end with concrete offsets in minutes (no-location events 06/07/19/20h)
    Event(TimeEvent, i16, TimeEvent, i16),
    /// event based start whose offset is forked over every whole hour in -24:00..=+24:00 (the offset
    /// field is an i16 of the AST, it cannot be symbolic), symbolic fixed end in 00:00..=48:00
    EventFree(TimeEvent),
}

#[derive(Clone, Copy, Debug, PartialEq, Eq)]
pub enum KindSpec {
    Is(RuleKind),
    /// arbitrary kind: the harness forks over the three kinds
    Any,
    /// Open or Unknown (forked)
    NonClosed,
}

/// Day selector choice for the probe date 2024-06-12 (Wednesday) and its neighbours.
#[derive(Clone, Copy, Debug, PartialEq, Eq)]
pub enum Sel {
    /// no day selector at all
    Empty,
    /// `Tu-We`: matches yesterday and today
    TuWe,
    /// `Jun`: matches yesterday and today
    Jun,
    /// `Tu`: matches yesterday only
    Tu,
    /// `We`: matches today only
    We,
    /// `Fr`: matches neither
    Fr,
    /// `We-Th`: matches today and tomorrow
    WeTh,
    /// `Th`: tomorrow only
    Th,
    /// `Mo-Su` written out as a weekday range (non-empty selector matching every day)
    MoSu,
    /// `2024`: a year selector matching all probe days
    Y2024,
    /// `Jun 12`: a dated selector matching today only
    Jun12,
    /// `Jun 11-13`: yesterday, today, tomorrow
    Jun11To13,
    /// `2024 Jun 12`: dated selector with a year
    Y2024Jun12,
    /// `2024 Jun 10-2024 Jun 12`
    Y2024Jun10To12,
    /// `week 24` (Mon 2024-06-10 .. Sun 2024-06-16)
    Week24,
    /// `PH` with a calendar holding 2024-06-12 and 2024-06-13
    Ph,
    /// `Jul`: next month, outside the probe window
    Jul,
    /// `2024 Jun`: month range with a year
    Y2024Jun,
    /// `2025`: a later year
    Y2025,
    /// `2024-2030/2`: stepped years (2024 matches)
    YStep2,
    /// `Su[2]`: second Sunday of the month = 2024-06-09
    Su2,
    /// `Sa-Tu`: wrapping weekday range
    SaTu,
    /// `Nov-Feb`: wrapping month range
    NovFeb,
    /// `Jun We`: month and weekday
    JunWe,
    /// `2024 We`: year and weekday
    Y2024We,
    /// `Jun-Aug`
    JunAug,
    /// `week 20-30`
    Week20To30,
    /// `Mo-Fr`
    MoFr,
    /// `Fr-Th`: wrapping range covering the whole week
    FrTh,
    /// `Jul`, written `Jul:` in the defect named by C07
    JulFrTh,
    /// `Dec 20-Jun 12`: dated range wrapping over new year, today is its last day
    Dec20ToJun12,
    /// `Jun 13-Jan 10`: dated range wrapping over new year, starts tomorrow
    Jun13ToJan10,
    /// `week 23-24`
    Week23To24,
    /// `week 40-52`: ends on the last week of a 52-week year
    Week40To52,
    /// `week 50-53`
    Week50To53,
    /// `week 52-02`: wrapping week range
    Week52To02,
    /// `Nov-Dec`
    NovDec,
    /// `Dec`
    Dec,
    /// `Sa-Su`
    SaSu,
    /// `Su`
    Su,
    /// `2024-9999`
    Y2024To9999,
    /// `9999`
    Y9999,
    /// `1900-2024`
    Y1900To2024,
    /// `Mo-Tu`
    MoTu,
    /// `We-Su`
    WeSu,
    /// `Mo,We`: two disjoint entries in the weekday group
    MoWe,
    /// `Jan,Jun`: two disjoint entries in the month group
    JanJun,
    /// `Fr,Mo`: two entries, the first one after the second
    FrMo,
}

impl Sel {
    pub fn build(self) -> DaySelector {
        let wd = |a: Weekday, b: Weekday| WeekDayRange::Fixed { range: a..=b, offset: 0, nth_from_start: [true; 5], nth_from_end: [true; 5] };
        let mut ds = DaySelector::default();
        match self {
            Sel::Empty => {}
            Sel::TuWe => ds.weekday.push(wd(Weekday::Tue, Weekday::Wed)),
            Sel::Jun => ds.monthday.push(MonthdayRange::Month { range: Month::June..=Month::June, year: None }),
            Sel::Tu => ds.weekday.push(wd(Weekday::Tue, Weekday::Tue)),
            Sel::We => ds.weekday.push(wd(Weekday::Wed, Weekday::Wed)),
            Sel::Fr => ds.weekday.push(wd(Weekday::Fri, Weekday::Fri)),
            Sel::WeTh => ds.weekday.push(wd(Weekday::Wed, Weekday::Thu)),
            Sel::Th => ds.weekday.push(wd(Weekday::Thu, Weekday::Thu)),
            Sel::MoSu => ds.weekday.push(wd(Weekday::Mon, Weekday::Sun)),
            Sel::Y2024 => ds.year.push(YearRange { range: Year(2024)..=Year(2024), step: 1 }),
            Sel::Jun12 => ds.monthday.push(MonthdayRange::Date {
                start: (Date::md(12, Month::June), DateOffset::default()),
                end: (Date::md(12, Month::June), DateOffset::default()),
            }),
            Sel::Jun11To13 => ds.monthday.push(MonthdayRange::Date {
                start: (Date::md(11, Month::June), DateOffset::default()),
                end: (Date::md(13, Month::June), DateOffset::default()),
            }),
            Sel::Y2024Jun12 => ds.monthday.push(MonthdayRange::Date {
                start: (Date::ymd(12, Month::June, 2024), DateOffset::default()),
                end: (Date::ymd(12, Month::June, 2024), DateOffset::default()),
            }),
            Sel::Y2024Jun10To12 => ds.monthday.push(MonthdayRange::Date {
                start: (Date::ymd(10, Month::June, 2024), DateOffset::default()),
                end: (Date::ymd(12, Month::June, 2024), DateOffset::default()),
            }),
            Sel::Week24 => ds.week.push(WeekRange { range: WeekNum(24)..=WeekNum(24), step: 1 }),
            Sel::Ph => ds.weekday.push(WeekDayRange::Holiday { kind: HolidayKind::Public, offset: 0 }),
            Sel::Jul => ds.monthday.push(MonthdayRange::Month { range: Month::July..=Month::July, year: None }),
            Sel::Y2024Jun => ds.monthday.push(MonthdayRange::Month { range: Month::June..=Month::June, year: Some(2024) }),
            Sel::Y2025 => ds.year.push(YearRange { range: Year(2025)..=Year(2025), step: 1 }),
            Sel::YStep2 => ds.year.push(YearRange { range: Year(2024)..=Year(2030), step: 2 }),
            Sel::SaTu => ds.weekday.push(wd(Weekday::Sat, Weekday::Tue)),
            Sel::NovFeb => ds.monthday.push(MonthdayRange::Month { range: Month::November..=Month::February, year: None }),
            Sel::JunWe => {
                ds.monthday.push(MonthdayRange::Month { range: Month::June..=Month::June, year: None });
                ds.weekday.push(wd(Weekday::Wed, Weekday::Wed));
            }
            Sel::Y2024We => {
                ds.year.push(YearRange { range: Year(2024)..=Year(2024), step: 1 });
                ds.weekday.push(wd(Weekday::Wed, Weekday::Wed));
            }
            Sel::JunAug => ds.monthday.push(MonthdayRange::Month { range: Month::June..=Month::August, year: None }),
            Sel::Week20To30 => ds.week.push(WeekRange { range: WeekNum(20)..=WeekNum(30), step: 1 }),
            Sel::MoFr => ds.weekday.push(wd(Weekday::Mon, Weekday::Fri)),
            Sel::FrTh => ds.weekday.push(wd(Weekday::Fri, Weekday::Thu)),
            Sel::JulFrTh => {
                ds.monthday.push(MonthdayRange::Month { range: Month::July..=Month::July, year: None });
                ds.weekday.push(wd(Weekday::Fri, Weekday::Thu));
            }
            Sel::Dec20ToJun12 => ds.monthday.push(MonthdayRange::Date {
                start: (Date::md(20, Month::December), DateOffset::default()),
                end: (Date::md(12, Month::June), DateOffset::default()),
            }),
            Sel::Jun13ToJan10 => ds.monthday.push(MonthdayRange::Date {
                start: (Date::md(13, Month::June), DateOffset::default()),
                end: (Date::md(10, Month::January), DateOffset::default()),
            }),
            Sel::Week23To24 => ds.week.push(WeekRange { range: WeekNum(23)..=WeekNum(24), step: 1 }),
            Sel::Week40To52 => ds.week.push(WeekRange { range: WeekNum(40)..=WeekNum(52), step: 1 }),
            Sel::Week50To53 => ds.week.push(WeekRange { range: WeekNum(50)..=WeekNum(53), step: 1 }),
            Sel::Week52To02 => ds.week.push(WeekRange { range: WeekNum(52)..=WeekNum(2), step: 1 }),
            Sel::NovDec => ds.monthday.push(MonthdayRange::Month { range: Month::November..=Month::December, year: None }),
            Sel::Dec => ds.monthday.push(MonthdayRange::Month { range: Month::December..=Month::December, year: None }),
            Sel::SaSu => ds.weekday.push(wd(Weekday::Sat, Weekday::Sun)),
            Sel::Su => ds.weekday.push(wd(Weekday::Sun, Weekday::Sun)),
            Sel::Y2024To9999 => ds.year.push(YearRange { range: Year(2024)..=Year(9999), step: 1 }),
            Sel::Y9999 => ds.year.push(YearRange { range: Year(9999)..=Year(9999), step: 1 }),
            Sel::Y1900To2024 => ds.year.push(YearRange { range: Year(1900)..=Year(2024), step: 1 }),
            Sel::MoTu => ds.weekday.push(wd(Weekday::Mon, Weekday::Tue)),
            Sel::WeSu => ds.weekday.push(wd(Weekday::Wed, Weekday::Sun)),
            Sel::MoWe => {
                ds.weekday.push(wd(Weekday::Mon, Weekday::Mon));
                ds.weekday.push(wd(Weekday::Wed, Weekday::Wed));
            }
            Sel::JanJun => {
                ds.monthday.push(MonthdayRange::Month { range: Month::January..=Month::January, year: None });
                ds.monthday.push(MonthdayRange::Month { range: Month::June..=Month::June, year: None });
            }
            Sel::FrMo => {
                ds.weekday.push(wd(Weekday::Fri, Weekday::Fri));
                ds.weekday.push(wd(Weekday::Mon, Weekday::Mon));
            }
            Sel::Su2 => ds.weekday.push(WeekDayRange::Fixed {
                range: Weekday::Sun..=Weekday::Sun,
                offset: 0,
                nth_from_start: [false, true, false, false, false],
                nth_from_end: [false; 5],
            }),
        }
        ds
    }

    /// Does the selector match the day `offset` days after Wednesday 2024-06-12 (-3..=+3)?
    /// Written down from the calendar, not computed by the code under test.
    pub fn matches(self, offset: i64) -> bool {
        // 2024-06-09 Sun, 10 Mon, 11 Tue, 12 Wed, 13 Thu, 14 Fri, 15 Sat
        assert!((-3..=3).contains(&offset));
        match self {
            Sel::Empty | Sel::Jun | Sel::MoSu | Sel::Y2024 | Sel::Y2024Jun | Sel::YStep2 => true,
            Sel::Jun12 | Sel::Y2024Jun12 => offset == 0,
            Sel::Jun11To13 => (-1..=1).contains(&offset),
            Sel::Y2024Jun10To12 => (-2..=0).contains(&offset),
            Sel::Week24 => offset >= -2,
            Sel::Ph => offset == 0 || offset == 1,
            Sel::Jul | Sel::Y2025 => false,
            Sel::Su2 => offset == -3,
            Sel::Dec20ToJun12 => offset <= 0,
            Sel::Jun13ToJan10 => offset >= 1,
            Sel::Week23To24 | Sel::Y2024To9999 | Sel::Y1900To2024 => true,
            Sel::Week40To52 | Sel::Week50To53 | Sel::Week52To02 | Sel::NovDec | Sel::Dec | Sel::Y9999 => false,
            Sel::SaSu => offset == -3 || offset == 3,
            Sel::Su => offset == -3,
            Sel::MoTu => offset == -2 || offset == -1,
            Sel::WeSu => offset == -3 || offset >= 0,
            Sel::MoWe => offset == -2 || offset == 0,
            Sel::JanJun => true,
            Sel::FrMo => offset == -2 || offset == 2,
            Sel::SaTu => offset <= -1 || offset == 3,
            Sel::NovFeb | Sel::JulFrTh => false,
            Sel::JunWe | Sel::Y2024We => offset == 0,
            Sel::JunAug | Sel::Week20To30 | Sel::FrTh => true,
            Sel::MoFr => (-2..=2).contains(&offset),
            Sel::TuWe => offset == -1 || offset == 0,
            Sel::Tu => offset == -1,
            Sel::We => offset == 0,
            Sel::Fr => offset == 2,
            Sel::WeTh => offset == 0 || offset == 1,
            Sel::Th => offset == 1,
        }
    }

    pub fn is_empty(self) -> bool {
        self == Sel::Empty
    }
}

pub fn probe_day(offset: i64) -> NaiveDate {
    date(2024, 6, (12 + offset) as u32)
}

/// Evaluation context of the templates: no location, public holidays 2024-06-12 and 2024-06-13.
pub fn context() -> opening_hours::Context {
    let mut cal = compact_calendar::CompactCalendar::default();
    cal.insert(date(2024, 6, 12));
    cal.insert(date(2024, 6, 13));
    let holidays = opening_hours::ContextHolidays::new(Arc::new(cal), Default::default());
    opening_hours::Context::default().with_holidays(holidays)
}

#[derive(Clone, Debug)]
pub struct RuleSpec {
    pub op: RuleOperator,
    pub kind: KindSpec,
    pub sel: Sel,
    pub spans: Vec<SpanSpec>,
    pub comments: Vec<&'static str>,
}

/// What the oracle knows about one rule: its (possibly symbolic) spans as minute counts, where the
/// end already includes the +24h of a wrap (`end_eff > start` always), and its concrete kind.
#[derive(Clone, Debug)]
pub struct RuleModel {
    pub op: RuleOperator,
    pub kind: RuleKind,
    pub sel: Sel,
    pub spans: Vec<(SymInt, SymInt)>,
    pub comments: Vec<Arc<str>>,
    pub full_day_literal: bool,
}

pub fn pick_kind(name: &str, spec: KindSpec) -> RuleKind {
    match spec {
        KindSpec::Is(k) => k,
        KindSpec::Any => {
            let k = vrt::fresh_int(name, 0, 2);
            match vrt::decide_among(&[k.eq(SymInt::Const(0)), k.eq(SymInt::Const(1)), k.eq(SymInt::Const(2))]) {
                0 => RuleKind::Closed,
                1 => RuleKind::Open,
                _ => RuleKind::Unknown,
            }
        }
        KindSpec::NonClosed => {
            let k = vrt::fresh_int(name, 1, 2);
            if vrt::decide(k.eq(SymInt::Const(1))) {
                RuleKind::Open
            } else {
                RuleKind::Unknown
            }
        }
    }
}

fn event_minutes(ev: TimeEvent, offset: i16) -> i64 {
    // no-location event times (documented defaults) plus offset, 00:00 when out of 00:00..=48:00
    let base = match ev {
        TimeEvent::Dawn => 6 * 60,
        TimeEvent::Sunrise => 7 * 60,
        TimeEvent::Sunset => 19 * 60,
        TimeEvent::Dusk => 20 * 60,
    };
    let v = base + offset as i64;
    if (0..=2880).contains(&v) {
        v
    } else {
        0
    }
}

/// Build one rule and its oracle model. `idx` names the symbolic variables (`r{idx}s{j}` ...).
pub fn build_rule(idx: usize, spec: &RuleSpec) -> (RuleSequence, RuleModel) {
    let kind = pick_kind(&format!("r{idx}kind"), spec.kind);
    let mut spans = vec![];
    let mut model_spans = vec![];
    let mut event_offsets: Vec<i16> = vec![];
    for (j, sp) in spec.spans.iter().enumerate() {
        let (s, e): (SymInt, SymInt) = match sp {
            SpanSpec::Free => (vrt::fresh_int(&format!("r{idx}s{j}"), 0, DAY), vrt::fresh_int(&format!("r{idx}e{j}"), 0, 2 * DAY)),
            SpanSpec::Within => {
                let s = vrt::fresh_int(&format!("r{idx}s{j}"), 0, DAY - 1);
                let e = vrt::fresh_int(&format!("r{idx}e{j}"), 1, DAY);
                vrt::assume(s.lt(e));
                (s, e)
            }
            SpanSpec::Wrap => {
                let s = vrt::fresh_int(&format!("r{idx}s{j}"), 0, DAY);
                let e = vrt::fresh_int(&format!("r{idx}e{j}"), 0, DAY);
                vrt::assume(e.le(s));
                (s, e)
            }
            SpanSpec::Extended => {
                let s = vrt::fresh_int(&format!("r{idx}s{j}"), 0, DAY);
                let e = vrt::fresh_int(&format!("r{idx}e{j}"), DAY + 1, 2 * DAY);
                (s, e)
            }
            SpanSpec::FullDay => (SymInt::Const(0), SymInt::Const(DAY)),
            SpanSpec::EventFree(ev) => {
                let k = vrt::fresh_int(&format!("r{idx}o{j}"), -24, 24);
                let alts: Vec<vrt::SymBool> = (-24..=24).map(|v| k.eq(SymInt::Const(v))).collect();
                let hours = vrt::decide_among(&alts) as i64 - 24;
                event_offsets.push((60 * hours) as i16);
                (SymInt::Const(event_minutes(*ev, (60 * hours) as i16)), vrt::fresh_int(&format!("r{idx}e{j}"), 0, 2 * DAY))
            }
            SpanSpec::Event(ev1, o1, ev2, o2) => (SymInt::Const(event_minutes(*ev1, *o1)), SymInt::Const(event_minutes(*ev2, *o2))),
        };
        let span = match sp {
            SpanSpec::EventFree(ev) => TimeSpan {
                range: Time::Variable(VariableTime { event: *ev, offset: event_offsets.pop().unwrap() })..Time::Fixed(time_from(e)),
                open_end: false,
                repeats: None,
            },
            SpanSpec::Event(ev1, o1, ev2, o2) => TimeSpan {
                range: Time::Variable(VariableTime { event: *ev1, offset: *o1 })..Time::Variable(VariableTime { event: *ev2, offset: *o2 }),
                open_end: false,
                repeats: None,
            },
            _ => TimeSpan::fixed_range(time_from(s), time_from(e)),
        };
        spans.push(span);
        // a span whose end is not after its start wraps to the next day
        // (truncated to 48:00 and never before the start: only reachable when an event offset pushes
        // the start past 24:00)
        let e_eff = SymInt::ite(s.lt(e), e, s.max(e.add_const(DAY).min(SymInt::Const(2 * DAY))));
        model_spans.push((s, e_eff));
    }
    let comments: Vec<Arc<str>> = spec.comments.iter().map(|c| Arc::from(*c)).collect();
    let full_day_literal = spec.spans.len() == 1 && spec.spans[0] == SpanSpec::FullDay;
    let rs = RuleSequence {
        day_selector: spec.sel.build(),
        time_selector: TimeSelector::new(spans),
        kind,
        operator: spec.op,
        comments: comments.clone().into(),
    };
    (rs, RuleModel { op: spec.op, kind, sel: spec.sel, spans: model_spans, comments, full_day_literal })
}

pub fn build_expr(specs: &[RuleSpec]) -> (OpeningHoursExpression, Vec<RuleModel>) {
    let mut rules = vec![];
    let mut models = vec![];
    for (i, s) in specs.iter().enumerate() {
        let (r, m) = build_rule(i, s);
        rules.push(r);
        models.push(m);
    }
    (OpeningHoursExpression { rules }, models)
}

// ------------------------------------------------------------------------------------------------
// Reference semantics of one day (pointwise, at a symbolic minute)
// ------------------------------------------------------------------------------------------------

pub fn kind_code(k: RuleKind) -> i64 {
    match k {
        RuleKind::Closed => 0,
        RuleKind::Open => 1,
        RuleKind::Unknown => 2,
    }
}

#[derive(Clone)]
pub struct Layer {
    pub guard: SymBool,
    /// ranges in minutes of the evaluated day; a range covers m iff lo <= m < hi (and 0 <= m < 1440)
    pub ranges: Vec<(SymInt, SymInt)>,
    pub kind: RuleKind,
    pub rule: usize,
}

#[derive(Clone)]
pub struct DayModel {
    pub matched: SymBool,
    pub some: SymBool,
    pub layers: Vec<Layer>,
}

impl DayModel {
    pub fn covers(layer: &Layer, m: SymInt) -> SymBool {
        layer.guard.and(SymBool::any(layer.ranges.iter().map(|(lo, hi)| lo.le(m).and(m.lt(*hi)))))
    }

    /// Code of the kind shown at minute m: the topmost covering layer, -1 when nothing covers m.
    pub fn kind_at(&self, m: SymInt) -> SymInt {
        let mut res = SymInt::Const(-1);
        for l in self.layers.iter() {
            res = SymInt::ite(Self::covers(l, m), SymInt::Const(kind_code(l.kind)), res);
        }
        res
    }

    /// Index of the rule whose layer shows at minute m (-1 when nothing covers m).
    pub fn rule_at(&self, m: SymInt) -> SymInt {
        let mut res = SymInt::Const(-1);
        for l in self.layers.iter() {
            res = SymInt::ite(Self::covers(l, m), SymInt::Const(l.rule as i64), res);
        }
        res
    }

    /// Minutes at which the piecewise-constant kind function can change: every range bound and 0.
    pub fn critical_points(&self) -> Vec<SymInt> {
        let mut pts = vec![SymInt::Const(0)];
        for l in &self.layers {
            for (lo, hi) in &l.ranges {
                pts.push(*lo);
                pts.push(*hi);
            }
        }
        pts
    }

    /// Is some minute of the day open or unknown? (exists-quantifier eliminated over critical points)
    pub fn has_non_closed(&self) -> SymBool {
        SymBool::any(self.critical_points().into_iter().map(|c| {
            let k = self.kind_at(c);
            SymInt::Const(0).le(c).and(c.lt(SymInt::Const(DAY))).and(k.eq(SymInt::Const(1)).or(k.eq(SymInt::Const(2))))
        }))
    }
}

/// Ranges a rule contributes to the evaluated day: today's part and yesterday's spill-over.
pub fn rule_ranges(model: &RuleModel, today: bool, yesterday: bool) -> Option<Vec<(SymInt, SymInt)>> {
    if !today && !yesterday {
        return None;
    }
    let mut out = vec![];
    for (s, e) in &model.spans {
        if today {
            // part of [s, e) inside 00:00..24:00
            out.push((*s, e.min(SymInt::Const(DAY))));
        }
        if yesterday {
            // part beyond 24:00 of yesterday's span, shifted by -24h
            out.push((s.max(SymInt::Const(DAY)).add_const(-DAY), e.add_const(-DAY)));
        }
    }
    Some(out)
}

#[derive(Clone, Copy, PartialEq, Eq, Debug)]
pub enum Reading {
    /// a fallback rule looks at the rules applying on the evaluated day only: a spill-over from the
    /// day before does not count as coverage
    Strict,
    /// a spill-over from the day before counts as coverage for the fallback decision
    SpillFriendly,
}

/// Documented rule combination for one day (see DESIGN.md, C01), for a day on which rule `i` matches
/// today iff `today[i]` and matched the day before iff `yesterday[i]`.
pub fn day_semantics(models: &[RuleModel], today: &[bool], yesterday: &[bool], reading: Reading) -> DayModel {
    let mut st = DayModel { matched: SymBool::FALSE, some: SymBool::FALSE, layers: vec![] };
    for (i, model) in models.iter().enumerate() {
        let eval = rule_ranges(model, today[i], yesterday[i]);
        let mk = |guard: SymBool, ranges: Vec<(SymInt, SymInt)>| Layer { guard, ranges, kind: model.kind, rule: i };
        match (model.op, model.kind) {
            (RuleOperator::Normal, RuleKind::Open | RuleKind::Unknown) => {
                if today[i] {
                    // a later normal rule replaces earlier rules on the days it applies
                    st.layers = vec![mk(SymBool::TRUE, eval.unwrap())];
                    st.matched = SymBool::TRUE;
                    st.some = SymBool::TRUE;
                } else if let Some(ranges) = eval {
                    // the rule does not apply today: previous rules stay, its span from the day before
                    // still continues past midnight (on top of them)
                    st.layers.push(mk(SymBool::TRUE, ranges));
                    st.some = SymBool::TRUE;
                }
            }
            (RuleOperator::Additional, _) | (RuleOperator::Normal, RuleKind::Closed) => {
                // additional rules and closed rules overlay
                if let Some(ranges) = eval {
                    st.layers.push(mk(SymBool::TRUE, ranges));
                    st.some = SymBool::TRUE;
                }
                if today[i] {
                    st.matched = SymBool::TRUE;
                }
            }
            (RuleOperator::Fallback, _) => {
                // fallback rules apply only on days nothing else covered
                let covered = vrt::name_bool(match reading {
                    Reading::Strict => st.matched.and(st.has_non_closed()),
                    Reading::SpillFriendly => st.has_non_closed(),
                });
                for l in st.layers.iter_mut() {
                    l.guard = l.guard.and(covered);
                }
                let has_eval = eval.is_some();
                if let Some(ranges) = eval {
                    st.layers.push(mk(covered.not(), ranges));
                }
                st.matched = vrt::name_bool(SymBool::ite(covered, st.matched, SymBool::Const(today[i])));
                st.some = vrt::name_bool(SymBool::ite(covered, st.some, SymBool::Const(has_eval)));
            }
        }
    }
    st
}

pub fn op_name(op: RuleOperator) -> &'static str {
    match op {
        RuleOperator::Normal => ";",
        RuleOperator::Additional => ",",
        RuleOperator::Fallback => "||",
    }
}

pub fn describe(specs: &[RuleSpec]) -> String {
    specs
        .iter()
        .enumerate()
        .map(|(i, s)| {
            format!(
                "{}{:?} {:?} {:?}{}",
                if i == 0 { String::new() } else { format!(" {} ", op_name(s.op)) },
                s.sel,
                s.spans,
                s.kind,
                if s.comments.is_empty() { String::new() } else { format!(" {:?}", s.comments) }
            )
        })
        .collect()
}
