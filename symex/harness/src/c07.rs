//! C07 — normalization does not change the meaning of an expression; C13 — it is idempotent and
//! deterministic. The real `OpeningHoursExpression::normalize` (rules/mod.rs, normalize/*) runs on
//! expressions with symbolic time span end-points and symbolic kinds; the original and the
//! normalized expression are evaluated by the real `schedule_at` on a set of probe days and
//! compared at a symbolic minute.
use chrono::NaiveDate;
use opening_hours::OpeningHours;
use opening_hours_syntax::rules::RuleOperator;
use vrt::{SymBool, SymInt};

use crate::c01::op_tag;
use crate::c14::view;
use crate::exprs::*;
use crate::glue::*;
use crate::Template;

fn eff(code: SymInt) -> SymInt {
    SymInt::ite(code.eq(SymInt::Const(-1)), SymInt::Const(0), code)
}

/// Probe days: every weekday of the week of 2024-06-12, plus days in other months, weeks and years
/// (first/last day of a year, a leap day, the first days of July and August, a Saturday in November).
fn probe_days() -> Vec<NaiveDate> {
    let mut v: Vec<NaiveDate> = (-3..=3).map(probe_day).collect();
    // frame ends: ISO week 53 (2020-12-30, Sunday 2021-01-03), week 52 (2020-12-23), week 1 of 2021,
    // December, Sunday, the last supported year
    for (y, m, d) in [
        (2024, 1, 15), (2024, 2, 29), (2024, 7, 1), (2024, 7, 5), (2024, 8, 1), (2024, 11, 30), (2024, 12, 31), (2025, 1, 1), (2025, 6, 11), (2023, 6, 14),
        (2020, 12, 23), (2020, 12, 30), (2021, 1, 3), (2021, 1, 6), (9999, 12, 31), (9999, 6, 12), (1900, 1, 1),
    ] {
        v.push(date(y, m, d));
    }
    v
}

pub fn normalization(specs: &[RuleSpec]) {
    let (expr, _models) = build_expr(specs);
    let norm = expr.clone().normalize();
    vrt::note(format!("{} rules -> {} rules", expr.rules.len(), norm.rules.len()));
    // C13: deterministic and idempotent
    let again = expr.clone().normalize();
    vrt::check("normalize: equal expressions give equal results", SymBool::Const(again == norm));
    let twice = norm.clone().normalize();
    vrt::check("normalize: idempotent", SymBool::Const(twice == norm));
    // C07: same schedule on every probe day
    let a = OpeningHours::verif_from_expression(expr, context());
    let b = OpeningHours::verif_from_expression(norm, context());
    let m = vrt::fresh_int("m", 0, DAY - 1);
    for day in probe_days() {
        let ka = eff(crate::c14::kind_at(&view(&a.schedule_at(day)), m));
        let kb = eff(crate::c14::kind_at(&view(&b.schedule_at(day)), m));
        vrt::check(&format!("meaning: normalized expression has the same state on {day}"), ka.eq(kb));
    }
}

fn spec(op: RuleOperator, kind: KindSpec, sel: Sel, spans: Vec<SpanSpec>, comments: Vec<&'static str>) -> RuleSpec {
    RuleSpec { op, kind, sel, spans, comments }
}

const OPS: [RuleOperator; 3] = [RuleOperator::Normal, RuleOperator::Additional, RuleOperator::Fallback];

pub fn family(thorough: bool) -> Vec<(String, Vec<RuleSpec>)> {
    let n = RuleOperator::Normal;
    let mut out: Vec<(String, Vec<RuleSpec>)> = vec![];
    let canon: Vec<Sel> = if thorough {
        vec![
            Sel::Empty, Sel::We, Sel::TuWe, Sel::MoFr, Sel::SaTu, Sel::FrTh, Sel::Jun, Sel::JunAug, Sel::NovFeb, Sel::Week24, Sel::Week20To30, Sel::Y2024, Sel::JunWe, Sel::Y2024We,
            Sel::JulFrTh, Sel::Week40To52, Sel::Week50To53, Sel::Week52To02, Sel::NovDec, Sel::Dec, Sel::SaSu, Sel::Su, Sel::Y2024To9999, Sel::Y9999, Sel::Y1900To2024,
        ]
    } else {
        vec![
            Sel::Empty, Sel::We, Sel::MoFr, Sel::SaTu, Sel::Jun, Sel::NovFeb, Sel::Week24, Sel::Y2024, Sel::JunWe, Sel::Week40To52, Sel::Week50To53, Sel::Week52To02, Sel::NovDec,
            Sel::SaSu, Sel::Y2024To9999, Sel::Y1900To2024,
        ]
    };
    // one rule
    for sel in canon.iter().copied() {
        out.push((format!("one_{sel:?}"), vec![spec(n, KindSpec::Any, sel, vec![SpanSpec::Free], vec!["c0"])]));
        out.push((format!("one_{sel:?}_2"), vec![spec(n, KindSpec::Any, sel, vec![SpanSpec::Within, SpanSpec::Within], vec![])]));
        out.push((format!("one_{sel:?}_full"), vec![spec(n, KindSpec::Any, sel, vec![SpanSpec::FullDay], vec![])]));
    }
    // two rules
    let pairs: Vec<(Sel, Sel)> = if thorough {
        let mut p = vec![];
        for a in [Sel::Empty, Sel::We, Sel::MoFr, Sel::Jun, Sel::NovFeb, Sel::Week24, Sel::Y2024, Sel::JunWe] {
            for b in [Sel::Empty, Sel::We, Sel::SaTu, Sel::TuWe, Sel::JunAug, Sel::Y2024We, Sel::JulFrTh, Sel::Jun12, Sel::Ph, Sel::MoWe, Sel::FrMo, Sel::JanJun] {
                p.push((a, b));
            }
        }
        p
    } else {
        vec![
            (Sel::Empty, Sel::Empty), (Sel::Empty, Sel::We), (Sel::MoFr, Sel::We), (Sel::We, Sel::MoFr), (Sel::Jun, Sel::Empty), (Sel::Empty, Sel::JulFrTh), (Sel::Jun, Sel::JunWe),
            (Sel::NovFeb, Sel::SaTu), (Sel::Y2024, Sel::Week24), (Sel::We, Sel::Ph), (Sel::MoFr, Sel::Jun12), (Sel::Week24, Sel::TuWe), (Sel::WeSu, Sel::MoTu), (Sel::MoTu, Sel::TuWe),
            (Sel::Week40To52, Sel::Week50To53), (Sel::NovDec, Sel::Dec), (Sel::SaSu, Sel::Su), (Sel::Y2024To9999, Sel::Y1900To2024),
            (Sel::We, Sel::MoWe), (Sel::MoWe, Sel::FrMo), (Sel::Jun, Sel::JanJun), (Sel::FrMo, Sel::We),
        ]
    };
    for op in OPS {
        for (a, b) in pairs.iter().copied() {
            out.push((
                format!("two_{}_{a:?}_{b:?}", op_tag(op)),
                vec![spec(n, KindSpec::Any, a, vec![SpanSpec::Within], vec!["c0"]), spec(op, KindSpec::Any, b, vec![SpanSpec::Within], vec!["c1"])],
            ));
            out.push((
                format!("twofd_{}_{a:?}_{b:?}", op_tag(op)),
                vec![spec(n, KindSpec::Any, a, vec![SpanSpec::FullDay], vec![]), spec(op, KindSpec::Any, b, vec![SpanSpec::Free], vec![])],
            ));
        }
    }
    // three rules (a small family of shapes)
    let triples: Vec<(Sel, Sel, Sel)> = if thorough {
        vec![(Sel::Empty, Sel::We, Sel::MoFr), (Sel::MoFr, Sel::Jun, Sel::We), (Sel::Jun, Sel::JunWe, Sel::Empty), (Sel::We, Sel::We, Sel::We), (Sel::Empty, Sel::Ph, Sel::We)]
    } else {
        vec![(Sel::Jun, Sel::JunWe, Sel::Empty)]
    };
    for op1 in OPS {
        for op2 in OPS {
            for (a, b, c) in triples.iter().copied() {
                out.push((
                    format!("three_{}{}_{a:?}_{b:?}_{c:?}", op_tag(op1), op_tag(op2)),
                    vec![
                        spec(n, KindSpec::NonClosed, a, vec![SpanSpec::Within], vec!["c0"]),
                        spec(op1, KindSpec::Any, b, vec![SpanSpec::Within], vec![]),
                        spec(op2, KindSpec::NonClosed, c, vec![SpanSpec::Within], vec!["c2"]),
                    ],
                ));
            }
        }
    }
    out.reverse();
    out
}

pub fn templates(thorough: bool) -> Vec<Template> {
    family(thorough)
        .into_iter()
        .map(|(id, sp)| {
            let desc = format!("normalize + schedule_at on 24 probe days of: {}", describe(&sp));
            Template::new(id, desc, move || normalization(&sp))
        })
        .collect()
}
