//! C14 — Schedule algebra: overlay semantics and gap-free day iteration.
use std::ops::Range;
use std::sync::Arc;

use opening_hours::schedule::{Schedule, TimeRange};
use opening_hours::verif_hooks as vh;
use opening_hours_syntax::sorted_vec::UniqueSortedVec;
use opening_hours_syntax::{ExtendedTime, RuleKind};
use vrt::{SymBool, SymInt};

use crate::glue::*;
use crate::Template;

pub const KINDS: [RuleKind; 3] = [RuleKind::Open, RuleKind::Unknown, RuleKind::Closed];

pub fn kind_code(k: RuleKind) -> i64 {
    match k {
        RuleKind::Closed => 0,
        RuleKind::Open => 1,
        RuleKind::Unknown => 2,
    }
}

/// Symbolic ranges `[s_i, e_i)` anywhere in 00:00..=24:00 (possibly empty or inverted).
pub fn fresh_ranges(prefix: &str, n: usize) -> Vec<(SymInt, SymInt)> {
    (0..n)
        .map(|i| (vrt::fresh_int(&format!("{prefix}s{i}"), 0, 1440), vrt::fresh_int(&format!("{prefix}e{i}"), 0, 1440)))
        .collect()
}

pub fn to_ext(ranges: &[(SymInt, SymInt)]) -> Vec<Range<ExtendedTime>> {
    ranges.iter().map(|(s, e)| time_from(*s)..time_from(*e)).collect()
}

pub fn covers(ranges: &[(SymInt, SymInt)], m: SymInt) -> SymBool {
    SymBool::any(ranges.iter().map(|(s, e)| s.le(m).and(m.lt(*e))))
}

/// View of a schedule's raw ranges: (start, end, kind, comments).
pub fn view(s: &Schedule) -> Vec<(SymInt, SymInt, RuleKind, Vec<Arc<str>>)> {
    vh::schedule_inner(s)
        .iter()
        .map(|tr| (mins_of(tr.range.start), mins_of(tr.range.end), tr.kind, tr.comments.iter().cloned().collect()))
        .collect()
}

pub fn view_ranges(v: &[(SymInt, SymInt, RuleKind, Vec<Arc<str>>)]) -> Vec<(SymInt, SymInt)> {
    v.iter().map(|(s, e, _, _)| (*s, *e)).collect()
}

/// Invariant: every range non-empty, ranges disjoint and increasing.
pub fn invariant(v: &[(SymInt, SymInt, RuleKind, Vec<Arc<str>>)]) -> SymBool {
    let nonempty = SymBool::all(v.iter().map(|(s, e, _, _)| s.lt(*e)));
    let ordered = SymBool::all(v.windows(2).map(|w| w[0].1.le(w[1].0)));
    nonempty.and(ordered)
}

/// Code of the kind covering minute `m` (or -1 when no range covers it).
pub fn kind_at(v: &[(SymInt, SymInt, RuleKind, Vec<Arc<str>>)], m: SymInt) -> SymInt {
    let mut res = SymInt::Const(-1);
    for (s, e, k, _) in v.iter().rev() {
        res = SymInt::ite(s.le(m).and(m.lt(*e)), SymInt::Const(kind_code(*k)), res);
    }
    res
}

fn from_ranges(n: usize) {
    let rs = fresh_ranges("r", n);
    let m = vrt::fresh_int("m", 0, 1439);
    let comments: UniqueSortedVec<Arc<str>> = vec![Arc::from("k1"), Arc::from("k2")].into();
    let sched = Schedule::from_ranges(to_ext(&rs), RuleKind::Open, &comments);
    let v = view(&sched);
    vrt::note(format!("from_ranges: {} ranges -> {}", n, v.len()));
    // C17: every range of the schedule carries exactly the comments it was built with
    let want: Vec<Arc<str>> = comments.iter().cloned().collect();
    vrt::check("comments: every range built by from_ranges carries exactly the given comments", SymBool::Const(v.iter().all(|x| x.3 == want)));
    vrt::check("from_ranges: disjoint, increasing, non-empty", invariant(&v));
    vrt::check("from_ranges: covers exactly the union of its inputs", covers(&view_ranges(&v), m).iff(covers(&rs, m)));
    vrt::check("from_ranges: kind kept", SymBool::Const(v.iter().all(|x| x.2 == RuleKind::Open)));
    let empty = sched.is_empty();
    vrt::check("is_empty iff nothing covered", SymBool::Const(empty).iff(SymBool::Const(v.is_empty())));
}

/// Well-formed operand built through the public API: `n` ranges that from_ranges keeps as they are.
fn operand(prefix: &str, n: usize, kind: RuleKind) -> (Schedule, Vec<(SymInt, SymInt)>) {
    let rs = fresh_ranges(prefix, n);
    // each operand carries two comments of its own (prefix-tagged)
    let comments: UniqueSortedVec<Arc<str>> = vec![Arc::from(format!("{prefix}-x")), Arc::from(format!("{prefix}-y"))].into();
    let sched = Schedule::from_ranges(to_ext(&rs), kind, &comments);
    // the operand's meaning is what it actually holds (from_ranges itself is checked above)
    let held = view_ranges(&view(&sched));
    (sched, held)
}

fn addition(na: usize, ka: RuleKind, nb: usize, kb: RuleKind, third: Option<(usize, RuleKind)>) {
    let (a, ra) = operand("a", na, ka);
    let (b, rb) = operand("b", nb, kb);
    let m = vrt::fresh_int("m", 0, 1439);
    let mut want = SymInt::ite(covers(&rb, m), SymInt::Const(kind_code(kb)), SymInt::ite(covers(&ra, m), SymInt::Const(kind_code(ka)), SymInt::Const(-1)));
    let mut sum = a.addition(b);
    if let Some((nc, kc)) = third {
        let (c, rc) = operand("c", nc, kc);
        want = SymInt::ite(covers(&rc, m), SymInt::Const(kind_code(kc)), want);
        sum = sum.addition(c);
    }
    let v = view(&sum);
    vrt::note(format!("addition -> {} ranges", v.len()));
    vrt::check("addition: disjoint, increasing, non-empty", invariant(&v));
    // C17: comments stay sorted, duplicate-free and come from the operands; a range lying inside the
    // last operand that no range of another operand touches carries exactly that operand's comments
    for (s, e, _k, cs) in &v {
        vrt::check("comments: sorted and free of duplicates after addition", SymBool::Const(cs.windows(2).all(|w| w[0] < w[1])));
        vrt::check("comments: taken from the operands", SymBool::Const(cs.iter().all(|c| c.ends_with("-x") || c.ends_with("-y"))));
        if third.is_none() {
            let inside_b = SymBool::any(rb.iter().map(|(lo, hi)| lo.le(*s).and(e.le(*hi))));
            let touches_a = SymBool::any(ra.iter().map(|(lo, hi)| lo.lt(*hi).and(lo.le(*e)).and(s.le(*hi))));
            let only_b = cs.len() == 2 && cs.iter().all(|c| c.starts_with("b-"));
            vrt::check("comments: a period of the last added schedule that no other period touches carries exactly its comments", inside_b.and(touches_a.not()).implies(SymBool::Const(only_b)));
        }
    }
    vrt::check("addition: every minute shows the most recently added schedule covering it", kind_at(&v, m).eq(want));
    // day iteration of the sum
    check_iteration(sum, &v, m);
}

/// IntoIterator yields a gap-free tiling of 00:00-24:00, closed in the holes, adjacent kinds differ.
pub fn check_iteration(s: Schedule, v: &[(SymInt, SymInt, RuleKind, Vec<Arc<str>>)], m: SymInt) {
    let tiles: Vec<TimeRange> = s.into_iter().collect();
    let t: Vec<(SymInt, SymInt, RuleKind, Vec<Arc<str>>)> = tiles
        .iter()
        .map(|tr| (mins_of(tr.range.start), mins_of(tr.range.end), tr.kind, tr.comments.iter().cloned().collect()))
        .collect();
    vrt::check("iter: at least one tile", SymBool::Const(!t.is_empty()));
    if t.is_empty() {
        return;
    }
    vrt::check("iter: starts at 00:00", t[0].0.eq(SymInt::Const(0)));
    vrt::check("iter: ends at 24:00", t[t.len() - 1].1.eq(SymInt::Const(1440)));
    vrt::check("iter: tiles non-empty", SymBool::all(t.iter().map(|x| x.0.lt(x.1))));
    vrt::check("iter: gap-free", SymBool::all(t.windows(2).map(|w| w[0].1.eq(w[1].0))));
    vrt::check("iter: adjacent kinds differ", SymBool::Const(t.windows(2).all(|w| w[0].2 != w[1].2)));
    let want = SymInt::ite(kind_at(v, m).eq(SymInt::Const(-1)), SymInt::Const(kind_code(RuleKind::Closed)), kind_at(v, m));
    vrt::check("iter: kind of the schedule, closed in holes", kind_at(&t, m).eq(want));
}

fn iteration(n: usize) {
    // a schedule with n ranges of arbitrary kinds, built by successive additions of single ranges
    let mut s = Schedule::new();
    for i in 0..n {
        let k = vrt::fresh_int(&format!("k{i}"), 0, 2);
        let kind = match vrt::decide_among(&[k.eq(SymInt::Const(0)), k.eq(SymInt::Const(1)), k.eq(SymInt::Const(2))]) {
            0 => RuleKind::Closed,
            1 => RuleKind::Open,
            _ => RuleKind::Unknown,
        };
        let (x, _) = operand(&format!("i{i}"), 1, kind);
        s = s.addition(x);
    }
    let v = view(&s);
    let m = vrt::fresh_int("m", 0, 1439);
    vrt::check("built schedule: invariant", invariant(&v));
    check_iteration(s, &v, m);
}

pub fn templates(thorough: bool) -> Vec<Template> {
    let mut out = vec![];
    let max_n = if thorough { 4 } else { 3 };
    for n in 0..=max_n {
        out.push(Template::new(format!("from_ranges_{n}"), format!("from_ranges over {n} arbitrary ranges in 00:00..=24:00 (any order, empty, inverted, nested, adjacent)"), move || from_ranges(n)));
    }
    for (ia, ka) in KINDS.iter().enumerate() {
        for (ib, kb) in KINDS.iter().enumerate() {
            let (ka, kb) = (*ka, *kb);
            let sizes: &[(usize, usize)] = if thorough { &[(1, 1), (2, 1), (1, 2), (2, 2)] } else { &[(1, 1), (2, 1), (1, 2)] };
            for (na, nb) in sizes.iter().copied() {
                out.push(Template::new(
                    format!("add_{na}{}_{nb}{}", ia, ib),
                    format!("addition of {na} {ka:?} range(s) and {nb} {kb:?} range(s), then day iteration"),
                    move || addition(na, ka, nb, kb, None),
                ));
            }
        }
    }
    // three operands: every kind triple with single ranges
    for (ia, ka) in KINDS.iter().enumerate() {
        for (ib, kb) in KINDS.iter().enumerate() {
            for (ic, kc) in KINDS.iter().enumerate() {
                if !thorough && !(ia != ib && ib != ic) {
                    continue;
                }
                let (ka, kb, kc) = (*ka, *kb, *kc);
                out.push(Template::new(
                    format!("add3_{ia}{ib}{ic}"),
                    format!("addition of three single-range schedules {ka:?}, {kb:?}, {kc:?}, then day iteration"),
                    move || addition(1, ka, 1, kb, Some((1, kc))),
                ));
            }
        }
    }
    let max_it = if thorough { 3 } else { 2 };
    for n in 0..=max_it {
        out.push(Template::new(format!("iter_{n}"), format!("day iteration of a schedule built from {n} single-range additions with symbolic kinds"), move || iteration(n)));
    }
    out
}
