//! Glue between harness code and the leaf value types. With feature `symbolic` the crates under
//! test are compiled against the symbolic twins; without it they are the real /repo crates and all
//! values are constants read from a model file (native replay).
#![allow(dead_code)]

use chrono::{NaiveDate, NaiveDateTime, NaiveTime, TimeDelta};
use opening_hours_syntax::ExtendedTime;
use vrt::SymInt;

#[cfg(feature = "symbolic")]
mod imp {
    use super::*;
    pub fn time_from(m: SymInt) -> ExtendedTime {
        ExtendedTime::from_sym(m)
    }
    pub fn mins_of(t: ExtendedTime) -> SymInt {
        t.sym_mins()
    }
    pub fn naive_time(secs: SymInt) -> NaiveTime {
        NaiveTime::from_sym_secs(secs)
    }
    pub fn secs_of(t: NaiveTime) -> SymInt {
        t.sym_secs()
    }
    pub fn delta(secs: SymInt) -> TimeDelta {
        TimeDelta::from_sym_secs(secs)
    }
    pub fn secs_of_delta(d: TimeDelta) -> SymInt {
        d.sym_secs()
    }
    pub fn date(y: i32, m: u32, d: u32) -> NaiveDate {
        NaiveDate::from_ymd_opt(y, m, d).expect("valid date")
    }
    pub fn days_between(a: NaiveDate, b: NaiveDate) -> i64 {
        (a - b).num_days()
    }
    pub fn date_from_days(days: SymInt) -> NaiveDate {
        NaiveDate::from_sym_days(days)
    }
    pub fn days_of(d: NaiveDate) -> SymInt {
        d.sym_days()
    }
}

#[cfg(not(feature = "symbolic"))]
mod imp {
    use super::*;
    use chrono::Timelike;
    fn c(v: SymInt) -> i64 {
        v.as_const().expect("native replay: value must be concrete")
    }
    pub fn time_from(m: SymInt) -> ExtendedTime {
        ExtendedTime::from_mins_from_midnight(c(m) as u16).expect("native replay: minute count out of 0..=2880")
    }
    pub fn mins_of(t: ExtendedTime) -> SymInt {
        SymInt::Const(t.mins_from_midnight() as i64)
    }
    pub fn naive_time(secs: SymInt) -> NaiveTime {
        NaiveTime::from_num_seconds_from_midnight_opt(c(secs) as u32, 0).expect("native replay: seconds out of range")
    }
    pub fn secs_of(t: NaiveTime) -> SymInt {
        SymInt::Const(t.num_seconds_from_midnight() as i64)
    }
    pub fn delta(secs: SymInt) -> TimeDelta {
        TimeDelta::seconds(c(secs))
    }
    pub fn secs_of_delta(d: TimeDelta) -> SymInt {
        SymInt::Const(d.num_seconds())
    }
    pub fn date(y: i32, m: u32, d: u32) -> NaiveDate {
        NaiveDate::from_ymd_opt(y, m, d).expect("valid date")
    }
    pub fn days_between(a: NaiveDate, b: NaiveDate) -> i64 {
        (a - b).num_days()
    }
    pub fn date_from_days(days: SymInt) -> NaiveDate {
        NaiveDate::from_num_days_from_ce_opt(c(days) as i32).expect("native replay: day number out of range")
    }
    pub fn days_of(d: NaiveDate) -> SymInt {
        use chrono::Datelike;
        SymInt::Const(d.num_days_from_ce() as i64)
    }
}

pub use imp::*;

/// A fresh symbolic date in `lo..=hi` (inclusive, concrete bounds).
pub fn fresh_date(name: &str, lo: NaiveDate, hi: NaiveDate) -> NaiveDate {
    let l = days_of(lo).as_const().expect("concrete bound");
    let h = days_of(hi).as_const().expect("concrete bound");
    date_from_days(vrt::fresh_int(name, l, h))
}

/// (days since 1900-01-01) * 86400 + seconds of day, as a symbolic integer: total order on instants.
pub fn instant_of(dt: NaiveDateTime) -> SymInt {
    let days = days_between(dt.date(), date(1900, 1, 1));
    SymInt::Const(days * 86_400).add(secs_of(dt.time()))
}

pub fn datetime(d: NaiveDate, secs: SymInt) -> NaiveDateTime {
    NaiveDateTime::new(d, naive_time(secs))
}

/// A fresh minute-of-day variable in `lo..=hi` as an ExtendedTime.
pub fn fresh_time(name: &str, lo: i64, hi: i64) -> ExtendedTime {
    time_from(vrt::fresh_int(name, lo, hi))
}
