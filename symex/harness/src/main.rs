//! Harness binary of engine S. Built twice from the same sources: in the substituted workspace
//! (feature `symbolic`, path-exhaustive exploration) and against the real /repo crates (native
//! replay of counterexamples).
mod glue;
mod exprs;
mod c01;
mod c02;
mod c07;
mod c0xd;
mod c09;
mod c14;
mod c20;

use std::collections::HashMap;
use std::io::Write;

pub struct Template {
    pub id: String,
    pub desc: String,
    pub run: Box<dyn Fn()>,
}

impl Template {
    pub fn new(id: impl Into<String>, desc: impl Into<String>, run: impl Fn() + 'static) -> Self {
        Template { id: id.into(), desc: desc.into(), run: Box::new(run) }
    }
}

fn suite(name: &str, thorough: bool) -> Vec<Template> {
    match name {
        "c01" => c01::templates(thorough),
        "c02" => c02::templates_stream(thorough),
        "c03" => c02::templates_point(thorough),
        "c08" => c02::templates_bounds(thorough),
        "c16" => c02::templates_bounded(thorough),
        "c01d" => c0xd::templates_dated(thorough),
        "c02d" => c0xd::templates_hint(thorough),
        "c02e" => c0xd::templates_expr_hint(thorough),
        "c07" => c07::templates(thorough),
        "c09" => c09::templates(thorough),
        "c14" => c14::templates(thorough),
        "c20" => c20::templates(thorough),
        other => panic!("unknown suite {other}"),
    }
}

fn claim_next(path: &str) -> usize {
    use std::io::{Read, Seek, SeekFrom};
    let mut f = std::fs::OpenOptions::new().read(true).write(true).create(true).open(path).expect("queue file");
    f.lock().expect("lock queue file");
    let mut s = String::new();
    f.read_to_string(&mut s).unwrap();
    let n: usize = s.trim().parse().unwrap_or(0);
    f.set_len(0).unwrap();
    f.seek(SeekFrom::Start(0)).unwrap();
    write!(f, "{}", n + 1).unwrap();
    f.flush().unwrap();
    let _ = f.unlock();
    n
}

fn arg_value(args: &[String], key: &str) -> Option<String> {
    args.iter().position(|a| a == key).and_then(|i| args.get(i + 1).cloned())
}

fn main() {
    let args: Vec<String> = std::env::args().collect();
    let cmd = args.get(1).map(String::as_str).unwrap_or("");
    match cmd {
        "list" => {
            let thorough = arg_value(&args, "--tier").as_deref() == Some("thorough");
            for t in suite(&args[2], thorough) {
                println!("{}\t{}", t.id, t.desc);
            }
        }
        "run" => {
            let name = args[2].clone();
            let thorough = arg_value(&args, "--tier").as_deref() == Some("thorough");
            let (shard, nshards) = arg_value(&args, "--shard")
                .map(|s| {
                    let (a, b) = s.split_once('/').expect("--shard i/n");
                    (a.parse::<usize>().unwrap(), b.parse::<usize>().unwrap())
                })
                .unwrap_or((0, 1));
            let seed: u64 = arg_value(&args, "--seed").and_then(|s| s.parse().ok()).unwrap_or(0);
            let only = arg_value(&args, "--only");
            let max_paths: u64 = arg_value(&args, "--max-paths").and_then(|s| s.parse().ok()).unwrap_or(200_000);
            let out_path = arg_value(&args, "--out").expect("--out file");
            let mut out = std::fs::File::create(&out_path).expect("cannot create output file");
            let mut templates = suite(&name, thorough);
            // VERIF_SEED only permutes the order of templates (and seeds the solver)
            if seed != 0 && !templates.is_empty() {
                let n = templates.len();
                templates.rotate_left((seed as usize) % n);
            }
            let queue = arg_value(&args, "--queue");
            let mut next_static = 0usize;
            loop {
                // dynamic distribution: workers claim the next template index from a shared counter
                // file; without --queue the templates are split statically by --shard i/n
                let idx = match &queue {
                    Some(q) => claim_next(q),
                    None => {
                        let i = next_static;
                        next_static += 1;
                        i
                    }
                };
                if idx >= templates.len() {
                    break;
                }
                if queue.is_none() && idx % nshards != shard {
                    continue;
                }
                let t = &templates[idx];
                if let Some(o) = &only {
                    if &t.id != o {
                        continue;
                    }
                }
                let opts = vrt::Options { max_paths, seed, ..Default::default() };
                let rep = vrt::explore(&t.id, &opts, || (t.run)());
                writeln!(
                    out,
                    "{{\"suite\": \"{}\", \"template\": \"{}\", \"desc\": \"{}\", \"report\": {}}}",
                    name,
                    vrt::json_escape(&t.id),
                    vrt::json_escape(&t.desc),
                    rep.to_json()
                )
                .unwrap();
                out.flush().unwrap();
            }
        }
        "replay" => {
            // replay <suite> <template-id> k=v k=v ...
            let name = args[2].clone();
            let id = args[3].clone();
            let mut model = HashMap::new();
            for kv in &args[4..] {
                if let Some((k, v)) = kv.split_once('=') {
                    model.insert(k.to_string(), v.parse::<i64>().expect("integer model value"));
                }
            }
            // the quick family is not always a subset of the thorough one: look in both
            let mut templates = suite(&name, true);
            templates.extend(suite(&name, false));
            let t = templates.iter().find(|t| t.id == id).unwrap_or_else(|| panic!("template {id} not found"));
            let rep = vrt::replay(&t.id, model, || (t.run)());
            println!("{}", rep.to_json());
        }
        _ => {
            eprintln!("usage: symh list|run|replay <suite> ...");
            std::process::exit(2);
        }
    }
}
