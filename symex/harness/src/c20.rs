//! C20 — UniqueSortedVec keeps its sorted-unique invariant under all operations.
//! The real generic code runs at `T = S`, an integer whose comparisons fork through the solver.
use std::cmp::Ordering;

use opening_hours_syntax::sorted_vec::UniqueSortedVec;
use vrt::{SymBool, SymInt};

use crate::Template;

#[derive(Clone, Copy, Debug)]
pub struct S(pub SymInt);

impl PartialEq for S {
    fn eq(&self, o: &Self) -> bool {
        vrt::decide(self.0.eq(o.0))
    }
}
impl Eq for S {}
impl PartialOrd for S {
    fn partial_cmp(&self, o: &Self) -> Option<Ordering> {
        Some(self.cmp(o))
    }
    fn lt(&self, o: &Self) -> bool {
        vrt::decide(self.0.lt(o.0))
    }
    fn le(&self, o: &Self) -> bool {
        vrt::decide(self.0.le(o.0))
    }
    fn gt(&self, o: &Self) -> bool {
        vrt::decide(self.0.gt(o.0))
    }
    fn ge(&self, o: &Self) -> bool {
        vrt::decide(self.0.ge(o.0))
    }
}
impl Ord for S {
    fn cmp(&self, o: &Self) -> Ordering {
        vrt::decide_cmp(self.0, o.0)
    }
}

const LO: i64 = -1000;
const HI: i64 = 1000;

fn fresh_vec(prefix: &str, n: usize) -> Vec<SymInt> {
    (0..n).map(|i| vrt::fresh_int(&format!("{prefix}{i}"), LO, HI)).collect()
}

fn member(xs: &[SymInt], p: SymInt) -> SymBool {
    SymBool::any(xs.iter().map(|x| x.eq(p)))
}

fn sorted_unique(xs: &[SymInt]) -> SymBool {
    SymBool::all(xs.windows(2).map(|w| w[0].lt(w[1])))
}

fn check_set(label: &str, result: &[SymInt], inputs: &[SymInt], p: SymInt) {
    vrt::check(&format!("{label}: result strictly increasing"), sorted_unique(result));
    vrt::check(&format!("{label}: membership preserved"), member(result, p).iff(member(inputs, p)));
}

fn from_vec(n: usize) {
    let xs = fresh_vec("x", n);
    let p = vrt::fresh_int("p", LO - 1, HI + 1);
    let usv: UniqueSortedVec<S> = xs.iter().map(|x| S(*x)).collect::<Vec<_>>().into();
    let res: Vec<SymInt> = usv.iter().map(|s| s.0).collect();
    vrt::note(format!("from: len {} -> {}", n, res.len()));
    check_set("from", &res, &xs, p);
    // contains agrees with membership
    let c = usv.contains(&S(p));
    vrt::check("contains == membership", member(&xs, p).iff(SymBool::Const(c)));
    // find_first_following: least element not smaller than p
    match usv.find_first_following(&S(p)) {
        Some(x) => {
            let x = x.0;
            vrt::check("fff: result >= p", x.ge(p));
            vrt::check("fff: result is a member", member(&xs, x));
            vrt::check("fff: result is least", SymBool::all(xs.iter().map(|v| v.ge(p).implies(x.le(*v)))));
        }
        None => vrt::check("fff: none only if all smaller", SymBool::all(xs.iter().map(|v| v.lt(p)))),
    }
}

fn union(n: usize, m: usize) {
    let xs = fresh_vec("a", n);
    let ys = fresh_vec("b", m);
    // operands are sorted-unique by construction (the invariant of the type)
    vrt::assume(sorted_unique(&xs));
    vrt::assume(sorted_unique(&ys));
    let p = vrt::fresh_int("p", LO - 1, HI + 1);
    let a: UniqueSortedVec<S> = xs.iter().map(|x| S(*x)).collect::<Vec<_>>().into();
    let b: UniqueSortedVec<S> = ys.iter().map(|x| S(*x)).collect::<Vec<_>>().into();
    let u = a.union(b);
    let res: Vec<SymInt> = u.iter().map(|s| s.0).collect();
    vrt::note(format!("union: {}+{} -> {}", n, m, res.len()));
    let mut all = xs.clone();
    all.extend(ys.iter().copied());
    check_set("union", &res, &all, p);
}

pub fn templates(thorough: bool) -> Vec<Template> {
    let mut out = vec![];
    let max_from = if thorough { 6 } else { 4 };
    for n in 0..=max_from {
        out.push(Template::new(format!("from_{n}"), format!("From<Vec<T>> + contains + find_first_following, {n} symbolic elements"), move || from_vec(n)));
    }
    let max_u = if thorough { 5 } else { 3 };
    for n in 0..=max_u {
        for m in 0..=max_u {
            out.push(Template::new(format!("union_{n}_{m}"), format!("union of sorted-unique operands of lengths {n} and {m}"), move || union(n, m)));
        }
    }
    out
}
