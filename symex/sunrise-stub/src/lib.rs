//! ENVIRONMENT STUB for the `sunrise` crate (engine S of /verif): the astronomical computation is
//! replaced by an arbitrary (symbolic) UTC instant on the requested date, one variable per
//! (date, event). Coordinate validation is the documented contract of `sunrise::Coordinates::new`.
use chrono::{DateTime, NaiveDate, NaiveDateTime, NaiveTime, Utc};

#[derive(Clone, Copy, Debug, PartialEq, PartialOrd)]
pub struct Coordinates {
    lat: f64,
    lon: f64,
}

impl Coordinates {
    pub const fn new(lat: f64, lon: f64) -> Option<Self> {
        if lat.is_nan() || lon.is_nan() || lat < -90.0 || lat > 90.0 || lon < -180.0 || lon > 180.0 {
            None
        } else {
            Some(Coordinates { lat, lon })
        }
    }
    pub const fn lat(&self) -> f64 {
        self.lat
    }
    pub const fn lon(&self) -> f64 {
        self.lon
    }
}

#[derive(Clone, Copy, Debug, PartialEq, Eq)]
pub enum DawnType {
    Civil,
    Nautical,
    Astronomical,
}

#[derive(Clone, Copy, Debug, PartialEq, Eq)]
pub enum SolarEvent {
    Sunrise,
    Sunset,
    Dawn(DawnType),
    Dusk(DawnType),
}

pub struct SolarDay {
    date: NaiveDate,
}

impl SolarDay {
    pub fn new(_coords: Coordinates, date: NaiveDate) -> Self {
        SolarDay { date }
    }
    pub fn event_time(&self, event: SolarEvent) -> DateTime<Utc> {
        let tag = match event {
            SolarEvent::Sunrise => "sunrise",
            SolarEvent::Sunset => "sunset",
            SolarEvent::Dawn(_) => "dawn",
            SolarEvent::Dusk(_) => "dusk",
        };
        let name = format!("sun_{}_{}", tag, self.date.format("%Y%m%d"));
        let secs = vrt::fresh_int(&name, 0, 86_399);
        NaiveDateTime::new(self.date, NaiveTime::from_sym_secs(secs)).and_utc()
    }
}
