//! vrt — runtime for path-exhaustive symbolic execution by leaf-type substitution.
//!
//! Values are `SymInt` / `SymBool`: either constants (folded natively, no solver involved) or SMT
//! terms over declared integer variables. Whenever real code branches on a symbolic value (through
//! the `Ord` / `PartialEq` impls of a twin type) it calls [`decide`] / [`decide_among`]; the runtime
//! asks a persistent `z3 -in` process which outcomes are feasible under the current path condition,
//! takes one and records the others. [`explore`] re-runs the harness until every feasible path has
//! been taken (depth-first over the decision trail, solver scopes mirror the trail).
//!
//! The same API works with constants only (replay mode): `fresh_int` then returns the value stored
//! in a model file and no solver is started. This is how counterexamples are replayed against the
//! real, unsubstituted crates.

use std::cell::RefCell;
use std::cmp::Ordering;
use std::collections::HashMap;
use std::io::{BufRead, BufReader, Write};
use std::panic::{self, AssertUnwindSafe};
use std::process::{Child, ChildStdin, ChildStdout, Command, Stdio};
use std::rc::Rc;
use std::time::Instant;

// ------------------------------------------------------------------------------------------------
// Terms
// ------------------------------------------------------------------------------------------------

/// A mathematical integer: constant or SMT term (index into the per-path arena).
#[derive(Clone, Copy, Debug)]
pub enum SymInt {
    Const(i64),
    Term(u32),
}

/// A boolean: constant or SMT term.
#[derive(Clone, Copy, Debug)]
pub enum SymBool {
    Const(bool),
    Term(u32),
}

fn int_lit(n: i64) -> String {
    if n < 0 {
        format!("(- {})", (n as i128).unsigned_abs())
    } else {
        n.to_string()
    }
}

fn mk_term(text: String) -> u32 {
    CTX.with(|c| {
        let mut c = c.borrow_mut();
        if let Some(&id) = c.intern.get(text.as_str()) {
            return id;
        }
        let id = c.terms.len() as u32;
        let rc: Rc<str> = Rc::from(text);
        c.terms.push(rc.clone());
        c.intern.insert(rc, id);
        id
    })
}

fn term_text(id: u32) -> Rc<str> {
    CTX.with(|c| c.borrow().terms[id as usize].clone())
}

impl SymInt {
    pub const ZERO: SymInt = SymInt::Const(0);

    pub const fn constant(n: i64) -> Self {
        SymInt::Const(n)
    }

    pub fn as_const(self) -> Option<i64> {
        match self {
            SymInt::Const(n) => Some(n),
            SymInt::Term(_) => None,
        }
    }

    pub fn is_const(self) -> bool {
        matches!(self, SymInt::Const(_))
    }

    pub fn text(self) -> Rc<str> {
        match self {
            SymInt::Const(n) => Rc::from(int_lit(n)),
            SymInt::Term(id) => term_text(id),
        }
    }

    /// Same representation (same constant or same interned term). Sound for "definitely equal".
    pub fn same(self, other: SymInt) -> bool {
        match (self, other) {
            (SymInt::Const(a), SymInt::Const(b)) => a == b,
            (SymInt::Term(a), SymInt::Term(b)) => a == b,
            _ => false,
        }
    }

    pub fn add(self, o: SymInt) -> SymInt {
        match (self, o) {
            (SymInt::Const(a), SymInt::Const(b)) => SymInt::Const(a.checked_add(b).expect("vrt: i64 overflow in constant add")),
            (SymInt::Const(0), x) | (x, SymInt::Const(0)) => x,
            (a, b) => SymInt::Term(mk_term(format!("(+ {} {})", a.text(), b.text()))),
        }
    }

    pub fn sub(self, o: SymInt) -> SymInt {
        match (self, o) {
            (SymInt::Const(a), SymInt::Const(b)) => SymInt::Const(a.checked_sub(b).expect("vrt: i64 overflow in constant sub")),
            (x, SymInt::Const(0)) => x,
            (a, b) if a.same(b) => SymInt::Const(0),
            (a, b) => SymInt::Term(mk_term(format!("(- {} {})", a.text(), b.text()))),
        }
    }

    pub fn add_const(self, k: i64) -> SymInt {
        self.add(SymInt::Const(k))
    }

    pub fn mul_const(self, k: i64) -> SymInt {
        match self {
            SymInt::Const(a) => SymInt::Const(a.checked_mul(k).expect("vrt: i64 overflow in constant mul")),
            _ if k == 1 => self,
            _ if k == 0 => SymInt::Const(0),
            _ => SymInt::Term(mk_term(format!("(* {} {})", int_lit(k), self.text()))),
        }
    }

    /// Floor division by a positive constant (SMT-LIB `div`).
    pub fn div_floor_const(self, k: i64) -> SymInt {
        assert!(k > 0);
        match self {
            SymInt::Const(a) => SymInt::Const(a.div_euclid(k)),
            _ if k == 1 => self,
            _ => SymInt::Term(mk_term(format!("(div {} {})", self.text(), k))),
        }
    }

    /// Non-negative remainder modulo a positive constant (SMT-LIB `mod`).
    pub fn mod_const(self, k: i64) -> SymInt {
        assert!(k > 0);
        match self {
            SymInt::Const(a) => SymInt::Const(a.rem_euclid(k)),
            _ => SymInt::Term(mk_term(format!("(mod {} {})", self.text(), k))),
        }
    }

    pub fn ite(c: SymBool, a: SymInt, b: SymInt) -> SymInt {
        match c {
            SymBool::Const(true) => a,
            SymBool::Const(false) => b,
            _ if a.same(b) => a,
            _ => SymInt::Term(mk_term(format!("(ite {} {} {})", c.text(), a.text(), b.text()))),
        }
    }

    pub fn min(self, o: SymInt) -> SymInt {
        SymInt::ite(self.le(o), self, o)
    }

    pub fn max(self, o: SymInt) -> SymInt {
        SymInt::ite(self.le(o), o, self)
    }

    fn rel(self, o: SymInt, op: &str, f: fn(i64, i64) -> bool, refl: bool) -> SymBool {
        match (self, o) {
            (SymInt::Const(a), SymInt::Const(b)) => SymBool::Const(f(a, b)),
            (a, b) if a.same(b) => SymBool::Const(refl),
            (a, b) => SymBool::Term(mk_term(format!("({} {} {})", op, a.text(), b.text()))),
        }
    }

    pub fn lt(self, o: SymInt) -> SymBool {
        self.rel(o, "<", |a, b| a < b, false)
    }
    pub fn le(self, o: SymInt) -> SymBool {
        self.rel(o, "<=", |a, b| a <= b, true)
    }
    pub fn gt(self, o: SymInt) -> SymBool {
        o.lt(self)
    }
    pub fn ge(self, o: SymInt) -> SymBool {
        o.le(self)
    }
    pub fn eq(self, o: SymInt) -> SymBool {
        self.rel(o, "=", |a, b| a == b, true)
    }
    pub fn ne(self, o: SymInt) -> SymBool {
        self.eq(o).not()
    }

    /// `lo <= self < hi`
    pub fn in_range(self, lo: SymInt, hi: SymInt) -> SymBool {
        lo.le(self).and(self.lt(hi))
    }
}

impl From<i64> for SymInt {
    fn from(n: i64) -> Self {
        SymInt::Const(n)
    }
}

impl SymBool {
    pub const TRUE: SymBool = SymBool::Const(true);
    pub const FALSE: SymBool = SymBool::Const(false);

    pub fn as_const(self) -> Option<bool> {
        match self {
            SymBool::Const(b) => Some(b),
            _ => None,
        }
    }

    pub fn text(self) -> Rc<str> {
        match self {
            SymBool::Const(true) => Rc::from("true"),
            SymBool::Const(false) => Rc::from("false"),
            SymBool::Term(id) => term_text(id),
        }
    }

    fn same(self, o: SymBool) -> bool {
        match (self, o) {
            (SymBool::Const(a), SymBool::Const(b)) => a == b,
            (SymBool::Term(a), SymBool::Term(b)) => a == b,
            _ => false,
        }
    }

    pub fn not(self) -> SymBool {
        match self {
            SymBool::Const(b) => SymBool::Const(!b),
            _ => SymBool::Term(mk_term(format!("(not {})", self.text()))),
        }
    }

    pub fn and(self, o: SymBool) -> SymBool {
        match (self, o) {
            (SymBool::Const(false), _) | (_, SymBool::Const(false)) => SymBool::Const(false),
            (SymBool::Const(true), x) | (x, SymBool::Const(true)) => x,
            (a, b) if a.same(b) => a,
            (a, b) => SymBool::Term(mk_term(format!("(and {} {})", a.text(), b.text()))),
        }
    }

    pub fn or(self, o: SymBool) -> SymBool {
        match (self, o) {
            (SymBool::Const(true), _) | (_, SymBool::Const(true)) => SymBool::Const(true),
            (SymBool::Const(false), x) | (x, SymBool::Const(false)) => x,
            (a, b) if a.same(b) => a,
            (a, b) => SymBool::Term(mk_term(format!("(or {} {})", a.text(), b.text()))),
        }
    }

    pub fn implies(self, o: SymBool) -> SymBool {
        self.not().or(o)
    }

    pub fn iff(self, o: SymBool) -> SymBool {
        match (self, o) {
            (SymBool::Const(a), SymBool::Const(b)) => SymBool::Const(a == b),
            (SymBool::Const(true), x) | (x, SymBool::Const(true)) => x,
            (SymBool::Const(false), x) | (x, SymBool::Const(false)) => x.not(),
            (a, b) if a.same(b) => SymBool::Const(true),
            (a, b) => SymBool::Term(mk_term(format!("(= {} {})", a.text(), b.text()))),
        }
    }

    pub fn ite(c: SymBool, a: SymBool, b: SymBool) -> SymBool {
        c.and(a).or(c.not().and(b))
    }

    pub fn all(items: impl IntoIterator<Item = SymBool>) -> SymBool {
        items.into_iter().fold(SymBool::TRUE, |a, b| a.and(b))
    }

    pub fn any(items: impl IntoIterator<Item = SymBool>) -> SymBool {
        items.into_iter().fold(SymBool::FALSE, |a, b| a.or(b))
    }
}

impl From<bool> for SymBool {
    fn from(b: bool) -> Self {
        SymBool::Const(b)
    }
}

// ------------------------------------------------------------------------------------------------
// Solver process
// ------------------------------------------------------------------------------------------------

struct Solver {
    child: Child,
    stdin: ChildStdin,
    stdout: BufReader<ChildStdout>,
    queries: u64,
    secs: f64,
    errors: Vec<String>,
    qlog: Option<std::fs::File>,
}

#[derive(PartialEq, Eq, Debug, Clone, Copy)]
enum Sat {
    Sat,
    Unsat,
    Unknown,
}

impl Solver {
    fn start(seed: u64) -> Solver {
        let bin = std::env::var("VRT_Z3").unwrap_or_else(|_| "z3".to_string());
        let mut child = Command::new(&bin)
            .args(["-in", "-smt2"])
            .stdin(Stdio::piped())
            .stdout(Stdio::piped())
            .stderr(Stdio::null())
            .spawn()
            .unwrap_or_else(|e| panic!("vrt: cannot start solver `{bin}`: {e}"));
        let stdin = child.stdin.take().unwrap();
        let stdout = BufReader::new(child.stdout.take().unwrap());
        let qlog = std::env::var("VRT_QLOG").ok().map(|p| {
            std::fs::OpenOptions::new().create(true).append(true).open(p).expect("vrt: cannot open query log")
        });
        let mut s = Solver { child, stdin, stdout, queries: 0, secs: 0.0, errors: vec![], qlog };
        s.send("(set-option :print-success false)");
        s.send("(set-logic ALL)");
        s.send(&format!("(set-option :smt.random_seed {})", seed % 1_000_000));
        s
    }

    fn send(&mut self, cmd: &str) {
        if let Some(f) = self.qlog.as_mut() {
            let _ = writeln!(f, "{cmd}");
        }
        self.stdin.write_all(cmd.as_bytes()).expect("vrt: solver pipe closed");
        self.stdin.write_all(b"\n").expect("vrt: solver pipe closed");
    }

    fn read_line(&mut self) -> String {
        let mut line = String::new();
        loop {
            line.clear();
            let n = self.stdout.read_line(&mut line).expect("vrt: solver read failed");
            if n == 0 {
                self.errors.push("solver terminated unexpectedly".into());
                return String::new();
            }
            let t = line.trim();
            if t.is_empty() {
                continue;
            }
            if t.starts_with("(error") {
                self.errors.push(t.to_string());
                continue;
            }
            return t.to_string();
        }
    }

    fn check_sat(&mut self) -> Sat {
        let t0 = Instant::now();
        self.send("(check-sat)");
        self.stdin.flush().ok();
        let line = self.read_line();
        self.queries += 1;
        self.secs += t0.elapsed().as_secs_f64();
        match line.as_str() {
            "sat" => Sat::Sat,
            "unsat" => Sat::Unsat,
            other => {
                self.errors.push(format!("check-sat answered `{other}`"));
                Sat::Unknown
            }
        }
    }

    /// Is `pc /\ extra` satisfiable?
    fn feasible(&mut self, extra: &str) -> Sat {
        self.send("(push 1)");
        self.send(&format!("(assert {extra})"));
        let r = self.check_sat();
        self.send("(pop 1)");
        r
    }

    fn get_values(&mut self, vars: &[String]) -> Vec<(String, i64)> {
        if vars.is_empty() {
            return vec![];
        }
        self.send(&format!("(get-value ({}))", vars.join(" ")));
        self.stdin.flush().ok();
        let mut text = String::new();
        let mut depth: i64 = 0;
        let mut started = false;
        loop {
            let line = self.read_line();
            if line.is_empty() {
                break;
            }
            for ch in line.chars() {
                if ch == '(' {
                    depth += 1;
                    started = true;
                } else if ch == ')' {
                    depth -= 1;
                }
            }
            text.push_str(&line);
            text.push(' ');
            if started && depth <= 0 {
                break;
            }
        }
        // parse ((v 1) (w (- 2)) ...)
        let mut out = vec![];
        let cleaned = text.replace('(', " ( ").replace(')', " ) ");
        let toks: Vec<&str> = cleaned.split_whitespace().collect();
        let mut i = 0;
        while i < toks.len() {
            if vars.iter().any(|v| v == toks[i]) {
                let name = toks[i].to_string();
                let mut j = i + 1;
                let mut neg = false;
                while j < toks.len() {
                    match toks[j] {
                        "(" => {}
                        "-" => neg = true,
                        ")" => break,
                        t => {
                            if let Ok(v) = t.parse::<i64>() {
                                out.push((name.clone(), if neg { -v } else { v }));
                                break;
                            }
                        }
                    }
                    j += 1;
                }
                i = j;
            }
            i += 1;
        }
        out
    }
}

impl Drop for Solver {
    fn drop(&mut self) {
        let _ = self.stdin.write_all(b"(exit)\n");
        let _ = self.stdin.flush();
        let _ = self.child.kill();
        let _ = self.child.wait();
    }
}

// ------------------------------------------------------------------------------------------------
// Context
// ------------------------------------------------------------------------------------------------

struct Decision {
    alts: Vec<Rc<str>>,
    choice: usize,
    remaining: Vec<usize>,
}

#[derive(Clone, Debug)]
pub struct Violation {
    pub kind: String,
    pub label: String,
    pub message: String,
    pub model: Vec<(String, i64)>,
    pub trail: Vec<usize>,
}

struct Ctx {
    replay: Option<HashMap<String, i64>>,
    solver: Option<Solver>,
    terms: Vec<Rc<str>>,
    intern: HashMap<Rc<str>, u32>,
    trail: Vec<Decision>,
    pos: usize,
    declared: Vec<(String, usize)>,
    aux_declared: Vec<(String, usize)>,
    aux_counter: u64,
    /// formulas asserted on the current path (chosen alternatives), for solver-free re-decisions
    known: std::collections::HashSet<Rc<str>>,
    cache_hits: u64,
    assumed_depth: Vec<usize>,
    decisions_this_path: u64,
    max_decisions: u64,
    checks_this_path: u64,
    checks_total: u64,
    violations: Vec<Violation>,
    violations_total: u64,
    keep_per_label: usize,
    pending: Vec<(String, Rc<str>)>,
    notes: Vec<String>,
    last_panic: Option<String>,
    in_explore: bool,
}

impl Ctx {
    fn new() -> Ctx {
        Ctx {
            replay: None,
            solver: None,
            terms: vec![],
            intern: HashMap::new(),
            trail: vec![],
            pos: 0,
            declared: vec![],
            aux_declared: vec![],
            aux_counter: 0,
            known: std::collections::HashSet::new(),
            cache_hits: 0,
            assumed_depth: vec![],
            decisions_this_path: 0,
            max_decisions: 1_000_000,
            checks_this_path: 0,
            checks_total: 0,
            violations: vec![],
            violations_total: 0,
            keep_per_label: 2,
            pending: vec![],
            notes: vec![],
            last_panic: None,
            in_explore: false,
        }
    }
}

thread_local! {
    static CTX: RefCell<Ctx> = RefCell::new(Ctx::new());
    static LAST_PANIC: RefCell<Option<String>> = const { RefCell::new(None) };
    static QUIET: std::cell::Cell<bool> = const { std::cell::Cell::new(false) };
}

/// Marker payload for controlled path termination.
struct PathAbort(&'static str);

fn abort_path(reason: &'static str) -> ! {
    panic::resume_unwind(Box::new(PathAbort(reason)))
}

/// Declare (or look up) an integer input with `lo <= v <= hi`.
pub fn fresh_int(name: &str, lo: i64, hi: i64) -> SymInt {
    let replay_val = CTX.with(|c| c.borrow().replay.as_ref().map(|m| m.get(name).copied()));
    if let Some(v) = replay_val {
        let v = v.unwrap_or(lo);
        return SymInt::Const(v);
    }
    CTX.with(|c| {
        let mut c = c.borrow_mut();
        assert!(c.in_explore, "vrt::fresh_int outside explore()");
        let level = c.pos;
        if !c.declared.iter().any(|(n, _)| n == name) {
            c.declared.push((name.to_string(), level));
            let s = c.solver.as_mut().unwrap();
            s.send(&format!("(declare-const {name} Int)"));
            s.send(&format!("(assert (and (<= {} {name}) (<= {name} {})))", int_lit(lo), int_lit(hi)));
        }
    });
    SymInt::Term(mk_term(name.to_string()))
}

/// Give a large term a name (a solver-side definition scoped like an input variable), so that it
/// can be used many times without being duplicated textually. Semantically the identity.
pub fn name_bool(b: SymBool) -> SymBool {
    match b {
        SymBool::Const(_) => b,
        _ => SymBool::Term(mk_term(define_aux(&b.text(), "Bool"))),
    }
}

/// See [`name_bool`].
pub fn name_int(v: SymInt) -> SymInt {
    match v {
        SymInt::Const(_) => v,
        _ => SymInt::Term(mk_term(define_aux(&v.text(), "Int"))),
    }
}

fn define_aux(text: &str, sort: &str) -> String {
    CTX.with(|c| {
        let mut c = c.borrow_mut();
        if c.replay.is_some() {
            panic!("vrt: symbolic definition in replay mode");
        }
        let name = format!("aux!{}", c.aux_counter);
        c.aux_counter += 1;
        let level = c.pos;
        if !c.aux_declared.iter().any(|(n, _)| n == &name) {
            c.aux_declared.push((name.clone(), level));
            let s = c.solver.as_mut().unwrap();
            s.send(&format!("(declare-const {name} {sort})"));
            s.send(&format!("(assert (= {name} {text}))"));
        }
        name
    })
}

/// Branch on a symbolic boolean.
pub fn decide(b: SymBool) -> bool {
    match b {
        SymBool::Const(v) => v,
        _ => decide_among(&[b, b.not()]) == 0,
    }
}

/// Three-way comparison of two symbolic integers.
pub fn decide_cmp(a: SymInt, b: SymInt) -> Ordering {
    if let (SymInt::Const(x), SymInt::Const(y)) = (a, b) {
        return x.cmp(&y);
    }
    if a.same(b) {
        return Ordering::Equal;
    }
    match decide_among(&[a.lt(b), a.eq(b), a.gt(b)]) {
        0 => Ordering::Less,
        1 => Ordering::Equal,
        _ => Ordering::Greater,
    }
}

/// Pick the alternative that holds. `alts` must be exhaustive and pairwise exclusive under the
/// path condition. Forks over every feasible alternative.
pub fn decide_among(alts: &[SymBool]) -> usize {
    if let Some(i) = alts.iter().position(|a| matches!(a, SymBool::Const(true))) {
        return i;
    }
    let texts: Vec<Rc<str>> = alts.iter().map(|a| a.text()).collect();
    CTX.with(|c| {
        let mut c = c.borrow_mut();
        if c.replay.is_some() {
            panic!("vrt: symbolic decision in replay mode (a value was not concretised)");
        }
        assert!(c.in_explore, "vrt::decide outside explore()");
        // an alternative that was already chosen (hence asserted) earlier on this path holds
        if let Some(i) = texts.iter().position(|t| c.known.contains(t)) {
            c.cache_hits += 1;
            if c.cache_hits > 2_000_000_000 {
                drop(c);
                abort_path("step watchdog: too many repeated decisions on one path");
            }
            return i;
        }
        c.decisions_this_path += 1;
        if c.decisions_this_path > c.max_decisions {
            drop(c);
            abort_path("decision budget exceeded");
        }
        let pos = c.pos;
        if pos < c.trail.len() {
            // replaying the prefix: the solver already holds these assertions
            let d = &c.trail[pos];
            debug_assert_eq!(d.alts.len(), texts.len(), "vrt: nondeterministic harness (alternative count differs on replay)");
            debug_assert!(d.alts.iter().zip(&texts).all(|(a, b)| a == b), "vrt: nondeterministic harness (alternatives differ on replay)");
            let ch = d.choice;
            let t = d.alts[ch].clone();
            c.known.insert(t);
            c.pos += 1;
            return ch;
        }
        let mut feasible = vec![];
        let n = texts.len();
        let mut unknown = false;
        for (i, t) in texts.iter().enumerate() {
            if &**t == "false" {
                continue;
            }
            if i == n - 1 && feasible.is_empty() && !unknown {
                feasible.push(i); // exhaustive alternatives: the last one is forced
                break;
            }
            match c.solver.as_mut().unwrap().feasible(t) {
                Sat::Sat => feasible.push(i),
                Sat::Unsat => {}
                Sat::Unknown => unknown = true,
            }
        }
        if feasible.is_empty() {
            drop(c);
            abort_path("no feasible alternative (solver unknown or non-exhaustive alternatives)");
        }
        let choice = feasible[0];
        let remaining: Vec<usize> = feasible[1..].iter().rev().copied().collect();
        let s = c.solver.as_mut().unwrap();
        s.send("(push 1)");
        s.send(&format!("(assert {})", texts[choice]));
        let t = texts[choice].clone();
        c.known.insert(t);
        c.trail.push(Decision { alts: texts, choice, remaining });
        c.pos += 1;
        choice
    })
}

/// The concrete value of `v` on this path, found by bisection over `lo..=hi` (forks over every
/// feasible value): used when code asks a symbolic value for a primitive.
pub fn concretize(v: SymInt, lo: i64, hi: i64) -> i64 {
    if let Some(n) = v.as_const() {
        return n;
    }
    let (mut lo, mut hi) = (lo, hi);
    while lo < hi {
        let mid = lo + (hi - lo + 1) / 2;
        if decide(v.lt(SymInt::Const(mid))) {
            hi = mid - 1;
        } else {
            lo = mid;
        }
    }
    lo
}

/// Restrict the inputs: paths on which `b` cannot hold are dropped, others continue under `b`.
pub fn assume(b: SymBool) {
    match b {
        SymBool::Const(true) => {}
        SymBool::Const(false) => abort_path("assumption false"),
        _ => {
            // An assumption is a one-sided decision: take the `true` branch only.
            let texts = [b.text()];
            let ok = CTX.with(|c| {
                let mut c = c.borrow_mut();
                if c.replay.is_some() {
                    panic!("vrt: symbolic assumption in replay mode");
                }
                let pos = c.pos;
                if pos < c.trail.len() {
                    c.pos += 1;
                    return true;
                }
                match c.solver.as_mut().unwrap().feasible(&texts[0]) {
                    Sat::Sat => {
                        let s = c.solver.as_mut().unwrap();
                        s.send("(push 1)");
                        s.send(&format!("(assert {})", texts[0]));
                        c.trail.push(Decision { alts: vec![texts[0].clone()], choice: 0, remaining: vec![] });
                        c.pos += 1;
                        true
                    }
                    _ => false,
                }
            });
            if !ok {
                abort_path("assumption infeasible");
            }
        }
    }
}

/// Assert that `prop` holds for every input on the current path.
///
/// Checks are collected and decided together when the path ends (one solver query for the
/// conjunction under the final path condition; on failure each check is decided separately). This
/// is equivalent to deciding each check where it is stated because every extension of the current
/// prefix is explored.
pub fn check(label: &str, prop: SymBool) {
    let text = match prop {
        SymBool::Const(true) => None,
        _ => Some(prop.text()),
    };
    CTX.with(|c| {
        let mut c = c.borrow_mut();
        c.checks_this_path += 1;
        c.checks_total += 1;
        if let Some(text) = text {
            c.pending.push((label.to_string(), text));
        }
    });
}

/// Decide all pending checks of the current path. Called by the driver at the end of each path.
fn flush_checks() {
    let pending: Vec<(String, Rc<str>)> = CTX.with(|c| std::mem::take(&mut c.borrow_mut().pending));
    if pending.is_empty() {
        return;
    }
    let replaying = CTX.with(|c| c.borrow().replay.is_some());
    if replaying {
        for (label, text) in pending {
            match &*text {
                "true" => {}
                "false" => record_violation_model("check", &label, "property is false on this path", vec![]),
                other => panic!("vrt: symbolic check in replay mode: {other}"),
            }
        }
        return;
    }
    // one query for the conjunction
    let all_hold = CTX.with(|c| {
        let mut c = c.borrow_mut();
        let s = c.solver.as_mut().unwrap();
        let mut conj = String::from("(and true");
        for (_, t) in &pending {
            conj.push(' ');
            conj.push_str(t);
        }
        conj.push(')');
        s.send("(push 1)");
        s.send(&format!("(assert (not {conj}))"));
        let r = s.check_sat();
        s.send("(pop 1)");
        r == Sat::Unsat
    });
    if all_hold {
        return;
    }
    for (label, text) in pending {
        let (sat, model) = CTX.with(|c| {
            let mut c = c.borrow_mut();
            let vars: Vec<String> = c.declared.iter().map(|(n, _)| n.clone()).collect();
            let s = c.solver.as_mut().unwrap();
            s.send("(push 1)");
            s.send(&format!("(assert (not {text}))"));
            let r = s.check_sat();
            let model = if r == Sat::Sat { s.get_values(&vars) } else { vec![] };
            s.send("(pop 1)");
            (r, model)
        });
        match sat {
            Sat::Unsat => {}
            Sat::Sat => record_violation_model("check", &label, "property can be false", model),
            Sat::Unknown => {
                CTX.with(|c| c.borrow_mut().solver.as_mut().unwrap().errors.push(format!("unknown on check {label}")));
            }
        }
    }
}

fn current_trail() -> Vec<usize> {
    CTX.with(|c| {
        let c = c.borrow();
        c.trail[..c.pos.min(c.trail.len())].iter().map(|d| d.choice).collect()
    })
}

fn record_violation(kind: &str, label: &str, msg: &str, want_model: bool) {
    let model = if want_model {
        CTX.with(|c| {
            let mut c = c.borrow_mut();
            if c.replay.is_some() {
                return vec![];
            }
            let vars: Vec<String> = c.declared.iter().map(|(n, _)| n.clone()).collect();
            let s = c.solver.as_mut().unwrap();
            if s.check_sat() == Sat::Sat {
                s.get_values(&vars)
            } else {
                vec![]
            }
        })
    } else {
        vec![]
    };
    record_violation_model(kind, label, msg, model)
}

fn record_violation_model(kind: &str, label: &str, msg: &str, model: Vec<(String, i64)>) {
    let trail = current_trail();
    CTX.with(|c| {
        let mut c = c.borrow_mut();
        c.violations_total += 1;
        let same = c.violations.iter().filter(|v| v.kind == kind && v.label == label).count();
        if same >= c.keep_per_label {
            return;
        }
        let notes = c.notes.join("; ");
        c.violations.push(Violation {
            kind: kind.to_string(),
            label: label.to_string(),
            message: if notes.is_empty() { msg.to_string() } else { format!("{msg} [{notes}]") },
            model,
            trail,
        });
    });
}

/// Attach a human-readable note to the current path (shown in samples and violations).
pub fn note(text: impl Into<String>) {
    CTX.with(|c| c.borrow_mut().notes.push(text.into()));
}

pub fn is_replay() -> bool {
    CTX.with(|c| c.borrow().replay.is_some())
}

// ------------------------------------------------------------------------------------------------
// Driver
// ------------------------------------------------------------------------------------------------

#[derive(Clone, Debug)]
pub struct Options {
    pub max_paths: u64,
    pub max_decisions_per_path: u64,
    pub max_violations: usize,
    pub seed: u64,
    /// A panic of the code under test on a feasible path is a violation (totality).
    pub panics_are_violations: bool,
}

impl Default for Options {
    fn default() -> Self {
        Options { max_paths: 200_000, max_decisions_per_path: 200_000, max_violations: 100_000, seed: 0, panics_are_violations: true }
    }
}

#[derive(Clone, Debug, Default)]
pub struct Report {
    pub name: String,
    pub paths: u64,
    pub completed_paths: u64,
    pub pruned: u64,
    pub panics: u64,
    pub queries: u64,
    pub checks: u64,
    pub solver_s: f64,
    pub wall_s: f64,
    pub max_depth: usize,
    pub exhaustive: bool,
    pub violations: Vec<Violation>,
    pub violations_total: u64,
    pub errors: Vec<String>,
    pub samples: Vec<String>,
}

fn install_quiet_hook() {
    use std::sync::Once;
    static ONCE: Once = Once::new();
    ONCE.call_once(|| {
        let prev = panic::take_hook();
        panic::set_hook(Box::new(move |info| {
            let quiet = QUIET.with(|q| q.get());
            if quiet {
                if info.payload().downcast_ref::<PathAbort>().is_some() {
                    return;
                }
                let msg = if let Some(s) = info.payload().downcast_ref::<&str>() {
                    s.to_string()
                } else if let Some(s) = info.payload().downcast_ref::<String>() {
                    s.clone()
                } else {
                    "<non-string panic payload>".to_string()
                };
                let loc = info.location().map(|l| format!("{}:{}", l.file(), l.line())).unwrap_or_default();
                LAST_PANIC.with(|p| *p.borrow_mut() = Some(format!("{msg} @ {loc}")));
            } else {
                prev(info);
            }
        }));
    });
}

/// Explore every feasible path of `f`. `f` must be deterministic given the decisions it receives.
pub fn explore<F: Fn()>(name: &str, opts: &Options, f: F) -> Report {
    install_quiet_hook();
    let t0 = Instant::now();
    let mut rep = Report { name: name.to_string(), ..Default::default() };
    CTX.with(|c| {
        let mut c = c.borrow_mut();
        *c = Ctx::new();
        c.solver = Some(Solver::start(opts.seed));
        c.max_decisions = opts.max_decisions_per_path;
        c.in_explore = true;
    });
    QUIET.with(|q| q.set(true));
    let mut exhausted = false;
    loop {
        // reset per-path state
        CTX.with(|c| {
            let mut c = c.borrow_mut();
            c.terms.clear();
            c.intern.clear();
            c.pos = 0;
            c.cache_hits = 0;
            c.known.clear();
            c.aux_counter = 0;
            c.decisions_this_path = 0;
            c.checks_this_path = 0;
            c.pending.clear();
            c.notes.clear();
            c.last_panic = None;
        });
        let nviol_before = CTX.with(|c| c.borrow().violations.len());
        let res = panic::catch_unwind(AssertUnwindSafe(|| f()));
        rep.paths += 1;
        let mut path_kind = "ok";
        // the trail of this path is complete: current position is its end
        CTX.with(|c| {
            let mut c = c.borrow_mut();
            c.pos = c.trail.len();
        });
        match res {
            Ok(()) => {
                rep.completed_paths += 1;
                flush_checks();
            }
            Err(payload) => {
                if let Some(PathAbort(reason)) = payload.downcast_ref::<PathAbort>() {
                    rep.pruned += 1;
                    path_kind = "pruned";
                    CTX.with(|c| c.borrow_mut().pending.clear());
                    if *reason != "assumption infeasible" && *reason != "assumption false" {
                        rep.errors.push(format!("path aborted: {reason}"));
                    }
                } else {
                    rep.panics += 1;
                    path_kind = "panic";
                    let msg = LAST_PANIC.with(|p| p.borrow_mut().take()).unwrap_or_else(|| "panic".into());
                    if msg.starts_with("vrt:") || msg.contains("vrt-unsupported") {
                        rep.errors.push(format!("unsupported operation on a symbolic value: {msg}"));
                    } else {
                        // checks stated before the panic still hold or fail on this path
                        flush_checks();
                        if opts.panics_are_violations {
                            record_violation("panic", "no-panic", &msg, true);
                        }
                    }
                }
            }
        }
        let (depth, notes, nviol) = CTX.with(|c| {
            let c = c.borrow();
            (c.trail.len(), c.notes.join("; "), c.violations.len())
        });
        rep.max_depth = rep.max_depth.max(depth);
        if rep.samples.len() < 6 || (nviol > nviol_before && rep.samples.len() < 12) {
            rep.samples.push(format!("path#{} {} decisions={} {}", rep.paths, path_kind, depth, notes));
        }
        // backtrack
        let more = CTX.with(|c| {
            let mut c = c.borrow_mut();
            loop {
                let Some(top) = c.trail.last_mut() else { return false };
                let next = top.remaining.pop();
                let text = next.map(|n| top.alts[n].clone());
                if let Some(n) = next {
                    top.choice = n;
                }
                let depth_after = if next.is_some() { c.trail.len() } else { c.trail.len() - 1 };
                let s = c.solver.as_mut().unwrap();
                s.send("(pop 1)");
                if let Some(t) = text {
                    s.send("(push 1)");
                    s.send(&format!("(assert {t})"));
                } else {
                    c.trail.pop();
                }
                // variables declared at a deeper level than the surviving prefix are gone
                let keep = if next.is_some() { depth_after - 1 } else { depth_after };
                c.declared.retain(|(_, lvl)| *lvl <= keep);
                c.aux_declared.retain(|(_, lvl)| *lvl <= keep);
                if next.is_some() {
                    return true;
                }
            }
        });
        let nviol = CTX.with(|c| c.borrow().violations_total) as usize;
        if !more {
            exhausted = true;
            break;
        }
        if rep.paths >= opts.max_paths {
            rep.errors.push(format!("path cap {} reached", opts.max_paths));
            break;
        }
        if nviol >= opts.max_violations {
            break;
        }
    }
    CTX.with(|c| {
        let mut c = c.borrow_mut();
        c.in_explore = false;
        if let Some(s) = c.solver.take() {
            rep.queries = s.queries;
            rep.solver_s = s.secs;
            rep.errors.extend(s.errors.iter().cloned());
        }
        rep.checks = c.checks_total;
        rep.violations = std::mem::take(&mut c.violations);
        rep.violations_total = c.violations_total;
        c.trail.clear();
    });
    QUIET.with(|q| q.set(false));
    rep.exhaustive = exhausted && rep.errors.is_empty();
    rep.wall_s = t0.elapsed().as_secs_f64();
    rep
}

/// Run `f` once with concrete inputs from a model (native replay against the real crates).
pub fn replay<F: Fn()>(name: &str, model: HashMap<String, i64>, f: F) -> Report {
    install_quiet_hook();
    let t0 = Instant::now();
    let mut rep = Report { name: name.to_string(), ..Default::default() };
    CTX.with(|c| {
        let mut c = c.borrow_mut();
        *c = Ctx::new();
        c.replay = Some(model);
        c.in_explore = true;
    });
    QUIET.with(|q| q.set(true));
    let res = panic::catch_unwind(AssertUnwindSafe(|| f()));
    rep.paths = 1;
    match res {
        Ok(()) => {
            rep.completed_paths = 1;
            flush_checks();
        }
        Err(payload) => {
            if payload.downcast_ref::<PathAbort>().is_some() {
                rep.pruned = 1;
            } else {
                rep.panics = 1;
                let msg = LAST_PANIC.with(|p| p.borrow_mut().take()).unwrap_or_else(|| "panic".into());
                if msg.starts_with("vrt:") {
                    rep.errors.push(msg);
                } else {
                    flush_checks();
                    record_violation_model("panic", "no-panic", &msg, vec![]);
                }
            }
        }
    }
    CTX.with(|c| {
        let mut c = c.borrow_mut();
        c.in_explore = false;
        rep.checks = c.checks_total;
        rep.violations = std::mem::take(&mut c.violations);
        rep.violations_total = c.violations_total;
        c.replay = None;
    });
    QUIET.with(|q| q.set(false));
    rep.exhaustive = false;
    rep.wall_s = t0.elapsed().as_secs_f64();
    rep
}

// ------------------------------------------------------------------------------------------------
// Minimal JSON output
// ------------------------------------------------------------------------------------------------

pub fn json_escape(s: &str) -> String {
    let mut out = String::with_capacity(s.len() + 2);
    for ch in s.chars() {
        match ch {
            '"' => out.push_str("\\\""),
            '\\' => out.push_str("\\\\"),
            '\n' => out.push_str("\\n"),
            '\t' => out.push_str("\\t"),
            c if (c as u32) < 0x20 => out.push_str(&format!("\\u{:04x}", c as u32)),
            c => out.push(c),
        }
    }
    out
}

impl Report {
    pub fn to_json(&self) -> String {
        let viol: Vec<String> = self
            .violations
            .iter()
            .map(|v| {
                let model: Vec<String> = v.model.iter().map(|(k, n)| format!("\"{}\": {}", json_escape(k), n)).collect();
                let trail: Vec<String> = v.trail.iter().map(|t| t.to_string()).collect();
                format!(
                    "{{\"kind\": \"{}\", \"label\": \"{}\", \"message\": \"{}\", \"model\": {{{}}}, \"trail\": [{}]}}",
                    json_escape(&v.kind),
                    json_escape(&v.label),
                    json_escape(&v.message),
                    model.join(", "),
                    trail.join(",")
                )
            })
            .collect();
        let errs: Vec<String> = self.errors.iter().take(20).map(|e| format!("\"{}\"", json_escape(e))).collect();
        let samples: Vec<String> = self.samples.iter().map(|e| format!("\"{}\"", json_escape(e))).collect();
        format!(
            "{{\"name\": \"{}\", \"paths\": {}, \"completed_paths\": {}, \"pruned\": {}, \"panics\": {}, \"queries\": {}, \"checks\": {}, \"solver_s\": {:.4}, \"wall_s\": {:.4}, \"max_depth\": {}, \"exhaustive\": {}, \"violations_total\": {}, \"violations\": [{}], \"errors\": [{}], \"samples\": [{}]}}",
            json_escape(&self.name),
            self.paths,
            self.completed_paths,
            self.pruned,
            self.panics,
            self.queries,
            self.checks,
            self.solver_s,
            self.wall_s,
            self.max_depth,
            self.exhaustive,
            self.violations_total,
            viol.join(", "),
            errs.join(", "),
            samples.join(", ")
        )
    }
}
