#!/bin/sh
# usage: symrun.sh <binary> <suite> <tier> <outdir>  -- run a suite with 16 workers, print summary
B=$1; S=$2; T=$3; O=$4
rm -rf "$O"; mkdir -p "$O"
for i in $(seq 0 15); do "$B" run "$S" --tier "$T" --queue "$O/q" --out "$O/s$i.jsonl" > "$O/log$i" 2>&1 & done
wait
cat "$O"/s*.jsonl | python3 -c "
import json,sys,collections
rows=[]; viol=collections.Counter(); ex={}
tot=0
for l in sys.stdin:
    r=json.loads(l); rep=r['report']; rows.append((rep['wall_s'], r['template'], rep['paths'], rep['queries'], rep['exhaustive'], rep['violations_total'], rep['errors'][:1]))
    tot+=rep['paths']
    for v in rep['violations']:
        viol[(v['kind'], v['label'][:90])]+=1
        ex.setdefault((v['kind'], v['label'][:90]), (r['template'], v['message'][:160], v['model']))
rows.sort(reverse=True)
print('templates', len(rows), 'paths', tot, 'cpu_s', round(sum(r[0] for r in rows),1))
for r in rows[:8]: print('  slow', r)
print('non-exhaustive:', [r[1] for r in rows if not r[4]][:20])
for k,c in viol.most_common(): print(c, k, ex[k])
print('templates with violations:', sorted(r[1] for r in rows if r[5])[:80])
"
