#!/bin/sh
set -e
cd "$(dirname "$0")/.."
python3 lib/sym_engine.py --setup
