#!/usr/bin/env python3
"""Regenerate /verif/kani/src/gen_cc.rs from /repo/compact-calendar/src/lib.rs (current working tree).

The crate's source is taken verbatim except for
  * the inner `#![doc = include_str!(..)]` attribute (not allowed inside a module) -> dropped,
  * `use std::collections::VecDeque;` -> `use crate::model_deque::VecDeque;` (bounded model of the std container),
and an appended constructor / view of the private fields for the harnesses (add-only, outside /repo).
Any deviation from the expected shape of these two lines is an error: the check must then be
inconclusive, never run on a stale copy.
"""
import os
import sys

SRC = "/repo/compact-calendar/src/lib.rs"
VERIF = os.path.dirname(os.path.dirname(os.path.abspath(__file__)))
DST = os.path.join(VERIF, "kani", "src", "gen_cc.rs")

APPENDIX = r"""

// ---- appended by /verif/lib/gen_cc.py (not part of /repo) ----
impl CompactCalendar {
    /// Build a calendar directly from its representation (harness-only).
    pub fn verif_from_parts(first_year: i32, years: &[CompactYear], split: usize) -> Self {
        Self { first_year, calendar: crate::model_deque::deque_from_parts(years, split) }
    }

    pub fn verif_first_year(&self) -> i32 {
        self.first_year
    }

    pub fn verif_len(&self) -> usize {
        self.calendar.len()
    }

    pub fn verif_year(&self, i: usize) -> Option<&CompactYear> {
        self.calendar.get(i)
    }

    /// Bitmap of month `m` (0-based) of the `i`-th stored year.
    pub fn verif_month_bits(&self, i: usize, m: usize) -> u32 {
        self.calendar.get(i).unwrap().0[m].0
    }
}

impl CompactYear {
    /// A year from its 12 month bitmaps (bit d-1 = day d), harness-only.
    pub fn verif_from_bits(bits: [u32; 12]) -> Self {
        let mut months = [CompactMonth(0); 12];
        let mut i = 0;
        while i < 12 {
            months[i] = CompactMonth(bits[i]);
            i += 1;
        }
        Self(months)
    }
}
"""


def generate():
    text = open(SRC).read()
    lines = text.split("\n")
    n_doc = sum(1 for l in lines if l.startswith("#![doc"))
    n_use = sum(1 for l in lines if l.strip() == "use std::collections::VecDeque;")
    other_inner = [l for l in lines if l.startswith("#![") and not l.startswith("#![doc")]
    if n_use != 1 or other_inner or "std::collections::VecDeque" in text.replace("use std::collections::VecDeque;", "", 1):
        raise SystemExit(f"gen_cc: unexpected shape of {SRC} (VecDeque import lines={n_use}, inner attrs={other_inner})")
    out = []
    for l in lines:
        if l.startswith("#![doc"):
            continue
        if l.strip() == "use std::collections::VecDeque;":
            out.append("use crate::model_deque::VecDeque;")
            continue
        out.append(l)
    body = "// GENERATED from /repo/compact-calendar/src/lib.rs by /verif/lib/gen_cc.py -- do not edit\n" \
           "#![allow(dead_code, unused_imports, clippy::all)]\n" + "\n".join(out) + APPENDIX
    old = open(DST).read() if os.path.exists(DST) else None
    if old != body:
        with open(DST, "w") as f:
            f.write(body)
    return DST


if __name__ == "__main__":
    print(generate())
