"""Shared helpers for the /verif check driver: tiers, evidence, known findings."""
import json
import os
import sys
import time

VERIF = os.path.dirname(os.path.dirname(os.path.abspath(__file__)))
REPO = os.environ.get("VERIF_REPO", "/repo")
CACHE = os.path.join(VERIF, ".cache")
LOGS = os.path.join(VERIF, "logs")
EVIDENCE = os.environ.get("VERIF_EVIDENCE_DIR") or os.path.join(VERIF, "evidence")
REPLAYS = os.path.join(VERIF, "replays")
KNOWN_FINDINGS = os.path.join(VERIF, "known_findings.json")

for d in (CACHE, LOGS, EVIDENCE, REPLAYS):
    os.makedirs(d, exist_ok=True)


def seed():
    try:
        return int(os.environ.get("VERIF_SEED", "0"))
    except ValueError:
        return 0


def offline_env():
    env = dict(os.environ)
    env["CARGO_NET_OFFLINE"] = "true"
    env.setdefault("CARGO_TERM_COLOR", "never")
    return env


def load_known_findings(prop):
    """Entries of known_findings.json for one property.

    The file is committed and never written at run time. Each entry:
      {"property": "C01", "status": "known"|"fixed", "key": <harness or role id>,
       "what": <text>, ...}
    Only status == "known" entries suppress anything; "fixed" entries are documentation.
    """
    try:
        with open(KNOWN_FINDINGS) as f:
            data = json.load(f)
    except FileNotFoundError:
        return []
    return [e for e in data.get("findings", []) if e.get("property") == prop]


class Outcome:
    """Accumulates the verdict of one check run."""

    def __init__(self, prop, tier):
        self.prop = prop
        self.tier = tier
        self.t0 = time.time()
        self.violations = []  # (replay_path, text)
        self.inconclusive = []  # text
        self.known = []  # text
        self.coverage = {
            "evaluations": 0,
            "distinct_nontrivial": 0,
            "samples": [],
            "obligations": 0,
            "discharged": 0,
            "exhaustive": False,
            "solver_s": 0.0,
            "functions_encoded": [],
            "stubs": [],
            "bounds": [],
            "outside_bounds": [],
            "engines": [],
        }
        self.assumptions = []

    def merge_list(self, key, items):
        cur = self.coverage.setdefault(key, [])
        for it in items:
            if it not in cur:
                cur.append(it)

    def finish(self, level="model_checking"):
        cov = self.coverage
        cov["rule"] = cov.get("rule") or (
            "evaluations = solver queries discharged (CBMC properties decided by SAT + Z3 check-sat calls); "
            "distinct_nontrivial = distinct harness partitions / explored program paths whose end was shown reachable "
            "(vacuity witness satisfied); a harness or path without confirmed reachability is not counted"
        )
        cov["solver_s"] = round(cov["solver_s"], 3)
        cov["inconclusive"] = self.inconclusive[:50]
        cov["known_findings_reported"] = self.known
        ev = {
            "property_id": self.prop,
            "tier": self.tier,
            "seed": seed(),
            "level": level,
            "coverage": cov,
            "assumptions": self.assumptions,
            "wall_s": round(time.time() - self.t0, 2),
            "violations": len(self.violations),
        }
        path = os.path.join(EVIDENCE, f"{self.prop}.json")
        tmp = path + ".tmp"
        with open(tmp, "w") as f:
            json.dump(ev, f, indent=1, default=str)
        os.replace(tmp, path)
        for text in self.known:
            print(f"KNOWN-FINDING: property={self.prop} {text}")
        for replay, text in self.violations:
            print(f"VIOLATION property={self.prop} replay={replay}")
            print(f"  {text}")
        for text in self.inconclusive:
            print(f"INCONCLUSIVE property={self.prop} {text}", file=sys.stderr)
        if self.violations:
            return 1
        if self.inconclusive:
            return 2
        return 0
