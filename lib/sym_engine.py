"""Engine S: path-exhaustive symbolic execution of the real source by leaf-type substitution.

At check time the three crates' sources are copied from /repo's working tree into a scratch
workspace outside /repo and /verif; only `opening-hours-syntax/src/extended_time.rs` is overwritten
(symbolic twin) and the manifests are generated so that `chrono` / `sunrise` resolve to the shim /
stub in /verif/symex. The harness binary explores every feasible path of each template; `z3 -in`
decides each branch and each final assertion. Counterexamples are replayed natively against the real
/repo crates (same harness sources, constants only) before a VIOLATION is reported.
"""
import fcntl
import hashlib
import json
import os
import shutil
import subprocess
import tempfile
import time

from common import CACHE, LOGS, REPLAYS, REPO, VERIF, load_known_findings, offline_env, seed

SYMEX = os.path.join(VERIF, "symex")
SCRATCH_ROOT = os.path.join(tempfile.gettempdir(), "oh-verif-sym")
MAX_REPLAYS = 4  # native replays per run; further counterexamples are counted, not replayed

SUITES = {
    # property -> list of (suite of the harness binary, label filter). A suite may serve several
    # properties; a violation belongs to the property whose filter matches its kind / label prefix.
    "C01": [("c01", ("check", "day schedule:")), ("c01d", ("check", "dated range:"))],
    "C02": [("c02", ("check", "stream:")), ("c02d", ("check", "hint:")), ("c02e", ("check", "expression hint:"))],
    "C03": [("c03", ("check", ""))],
    # C04: a panic on any feasible path of any suite; quick runs the cheaper suites, thorough all of them
    "C04": [("c14", ("panic", "")), ("c01", ("panic", "")), ("c01d", ("panic", "")), ("c02d", ("panic", "")), ("c08", ("panic", "")), ("c09", ("panic", "")), ("c16", [("check", "totality:"), ("panic", "")]),
            ("c03", ("panic", ""), "thorough"), ("c02", ("panic", ""), "thorough"), ("c07", ("panic", ""), "thorough"),
            ("c02e", ("panic", ""), "thorough")],
    "C07": [("c07", ("check", "meaning:"))],
    "C08": [("c08", ("check", "bounds:")), ("c16", ("check", "bounds:"))],
    "C13": [("c07", ("check", "normalize:"))],
    "C09": [("c09", ("check", "zone:"))],
    "C11": [("c09", ("check", "events:"))],
    "C14": [("c14", ("check", ("from_ranges:", "addition:", "iter:", "is_empty", "built schedule:")))],
    "C16": [("c16", [("check", "bound:"), ("panic", "")])],
    "C17": [("c14", ("check", "comments:")), ("c01", ("check", "comments:")), ("c02", ("check", "comments:"))],
    "C20": [("c20", ("check", ""))],
}


def _belongs(v, flt):
    if isinstance(flt, list):
        return any(_belongs(v, f) for f in flt)
    kind, prefix = flt
    if v.get("kind") != kind:
        return False
    return v.get("label", "").startswith(prefix)

WS_TOML = """[workspace]
resolver = "2"
members = ["syntax", "compact-calendar", "oh", "harness"]

[profile.dev]
opt-level = 1
debug = false
incremental = false
"""

SYNTAX_TOML = """[package]
name = "opening-hours-syntax"
version = "1.1.2"
edition = "2021"

[dependencies]
chrono = {{ package = "chrono-shim", path = "{symex}/chrono-shim" }}
vrt = {{ path = "{symex}/vrt" }}
pest = "2.0"
pest_derive = "2.0"

[features]
default = []
verif = []

[lints.rust]
unexpected_cfgs = "allow"
"""

CC_TOML = """[package]
name = "compact-calendar"
version = "1.1.2"
edition = "2021"

[dependencies]
chrono = {{ package = "chrono-shim", path = "{symex}/chrono-shim" }}
"""

OH_TOML = """[package]
name = "opening-hours"
version = "1.1.2"
edition = "2021"
build = "build.rs"

[lib]
path = "opening-hours/src/lib.rs"

[dependencies]
chrono = {{ package = "chrono-shim", path = "{symex}/chrono-shim" }}
compact-calendar = {{ path = "../compact-calendar" }}
flate2 = "1.0"
opening-hours-syntax = {{ path = "../syntax" }}
sunrise = {{ package = "sunrise-stub", path = "{symex}/sunrise-stub" }}

[features]
default = []
verif = ["opening-hours-syntax/verif"]

[lints.rust]
unexpected_cfgs = "allow"
"""

OH_BUILD_RS = """// Stub build script of the substituted workspace: the embedded holiday database (C10, not claimed)
// is replaced by empty data; nothing in engine S reads it.
fn main() {
    let out = std::env::var("OUT_DIR").unwrap();
    for e in ["PUBLIC", "SCHOOL"] {
        let p = format!("{out}/holidays_{e}.bin");
        std::fs::write(&p, b"").unwrap();
        println!("cargo::rustc-env=HOLIDAYS_{e}_FILE={p}");
        println!("cargo::rustc-env=HOLIDAYS_{e}_REGIONS=");
    }
    println!("cargo::rustc-cfg=CHANNEL_STABLE");
}
"""

HARNESS_SYM_TOML = """[package]
name = "symh"
version = "0.0.0"
edition = "2021"

[[bin]]
name = "symh"
path = "{symex}/harness/src/main.rs"

[features]
default = ["symbolic"]
symbolic = []

[dependencies]
chrono = {{ package = "chrono-shim", path = "{symex}/chrono-shim" }}
vrt = {{ path = "{symex}/vrt" }}
opening-hours = {{ path = "../oh", features = ["verif"] }}
opening-hours-syntax = {{ path = "../syntax", features = ["verif"] }}
compact-calendar = {{ path = "../compact-calendar" }}
"""

HARNESS_NATIVE_TOML = """[package]
name = "symh-native"
version = "0.0.0"
edition = "2021"

[workspace]

[[bin]]
name = "symh"
path = "{symex}/harness/src/main.rs"

[features]
default = []
symbolic = []

[dependencies]
chrono = "0.4"
vrt = {{ path = "{symex}/vrt" }}
opening-hours = {{ path = "{repo}", default-features = false, features = ["verif"] }}
opening-hours-syntax = {{ path = "{repo}/opening-hours-syntax", default-features = false, features = ["verif"] }}
compact-calendar = {{ path = "{repo}/compact-calendar" }}

[profile.dev]
debug = false
incremental = false

[lints.rust]
unexpected_cfgs = "allow"
"""


def _write(path, text):
    os.makedirs(os.path.dirname(path), exist_ok=True)
    old = None
    if os.path.exists(path):
        old = open(path).read()
    if old != text:
        with open(path, "w") as f:
            f.write(text)


def _sync_tree(src, dst, exclude=()):
    """Mirror a source directory (rsync keeps mtimes, so cargo rebuilds only what changed)."""
    os.makedirs(dst, exist_ok=True)
    cmd = ["rsync", "-a", "--delete", "--checksum"]
    for e in exclude:
        cmd += ["--exclude", e]
    subprocess.run(cmd + [src.rstrip("/") + "/", dst.rstrip("/") + "/"], check=True)


class Lock:
    def __init__(self, path):
        self.path = path

    def __enter__(self):
        os.makedirs(os.path.dirname(self.path), exist_ok=True)
        self.f = open(self.path, "w")
        fcntl.flock(self.f, fcntl.LOCK_EX)
        return self

    def __exit__(self, *a):
        fcntl.flock(self.f, fcntl.LOCK_UN)
        self.f.close()


def build_symbolic(log_path):
    """Generate the substituted workspace from /repo's working tree and build the harness binary.

    Returns (path to a private copy of the binary, error text or None)."""
    ws = os.path.join(SCRATCH_ROOT, "ws")
    target = os.path.join(CACHE, "sym-target")
    fmt = {"symex": SYMEX, "repo": REPO}
    with Lock(os.path.join(CACHE, "sym-build.lock")):
        _write(os.path.join(ws, "Cargo.toml"), WS_TOML)
        _write(os.path.join(ws, ".cargo", "config.toml"), "[net]\noffline = true\n")
        if not os.path.exists(os.path.join(ws, "Cargo.lock")):
            shutil.copy(os.path.join(REPO, "Cargo.lock"), os.path.join(ws, "Cargo.lock"))
        # opening-hours-syntax: real sources, extended_time.rs replaced by the twin
        _sync_tree(os.path.join(REPO, "opening-hours-syntax", "src"), os.path.join(ws, "syntax", "src"), exclude=["extended_time.rs"])
        shutil.copy2(os.path.join(SYMEX, "twin", "extended_time.rs"), os.path.join(ws, "syntax", "src", "extended_time.rs"))
        shutil.copy(os.path.join(REPO, "opening-hours-syntax", "README.md"), os.path.join(ws, "syntax", "README.md"))
        _write(os.path.join(ws, "syntax", "Cargo.toml"), SYNTAX_TOML.format(**fmt))
        # compact-calendar: real sources
        _sync_tree(os.path.join(REPO, "compact-calendar", "src"), os.path.join(ws, "compact-calendar", "src"))
        shutil.copy(os.path.join(REPO, "compact-calendar", "README.md"), os.path.join(ws, "compact-calendar", "README.md"))
        _write(os.path.join(ws, "compact-calendar", "Cargo.toml"), CC_TOML.format(**fmt))
        # opening-hours: real sources, stub build script
        _sync_tree(os.path.join(REPO, "opening-hours", "src"), os.path.join(ws, "oh", "opening-hours", "src"))
        shutil.copy(os.path.join(REPO, "README.md"), os.path.join(ws, "oh", "README.md"))
        _write(os.path.join(ws, "oh", "Cargo.toml"), OH_TOML.format(**fmt))
        _write(os.path.join(ws, "oh", "build.rs"), OH_BUILD_RS)
        _write(os.path.join(ws, "harness", "Cargo.toml"), HARNESS_SYM_TOML.format(**fmt))
        with open(log_path, "w") as log:
            p = subprocess.run(["cargo", "build", "--offline", "-p", "symh", "--target-dir", target],
                               cwd=ws, env=offline_env(), stdout=log, stderr=subprocess.STDOUT)
        if p.returncode != 0:
            return None, f"symbolic workspace failed to build (see {log_path})"
        bin_src = os.path.join(target, "debug", "symh")
        priv = os.path.join(CACHE, "sym-bin")
        os.makedirs(priv, exist_ok=True)
        dst = os.path.join(priv, f"symh.{os.getpid()}")
        shutil.copy(bin_src, dst)
    return dst, None


def build_native(log_path):
    """Build the same harness sources against the real /repo crates (for replay)."""
    nd = os.path.join(SCRATCH_ROOT, "native")
    target = os.path.join(CACHE, "sym-native-target")
    fmt = {"symex": SYMEX, "repo": REPO}
    with Lock(os.path.join(CACHE, "sym-native-build.lock")):
        _write(os.path.join(nd, "Cargo.toml"), HARNESS_NATIVE_TOML.format(**fmt))
        _write(os.path.join(nd, ".cargo", "config.toml"), "[net]\noffline = true\n")
        if not os.path.exists(os.path.join(nd, "Cargo.lock")):
            shutil.copy(os.path.join(REPO, "Cargo.lock"), os.path.join(nd, "Cargo.lock"))
        bins = {}
        for prof, flag in (("debug", []), ("release", ["--release"])):
            with open(log_path, "a") as log:
                p = subprocess.run(["cargo", "build", "--offline", "--target-dir", target] + flag,
                                   cwd=nd, env=offline_env(), stdout=log, stderr=subprocess.STDOUT)
            if p.returncode != 0:
                return None, f"native replay build failed (see {log_path})"
            priv = os.path.join(CACHE, "sym-bin")
            os.makedirs(priv, exist_ok=True)
            dst = os.path.join(priv, f"symh-native-{prof}.{os.getpid()}")
            shutil.copy(os.path.join(target, prof, "symh"), dst)
            bins[prof] = dst
    return bins, None


def native_replay(bins, suite, template, model):
    """Run one counterexample natively in dev and release profile. Returns (reproduced, detail)."""
    args = ["replay", suite, template] + [f"{k}={v}" for k, v in sorted(model.items())]
    details = []
    reproduced = False
    for prof, b in bins.items():
        try:
            p = subprocess.run([b] + args, stdout=subprocess.PIPE, stderr=subprocess.PIPE, text=True, timeout=600)
        except subprocess.TimeoutExpired:
            details.append(f"{prof}: timeout (possible non-termination)")
            reproduced = True
            continue
        try:
            rep = json.loads(p.stdout.strip().splitlines()[-1])
        except Exception:
            details.append(f"{prof}: no report (rc={p.returncode}) {p.stderr[-300:]}")
            continue
        if rep.get("violations"):
            reproduced = True
            v = rep["violations"][0]
            details.append(f"{prof}: reproduces: {v['kind']} {v['label']}: {v['message'][:200]}")
        else:
            details.append(f"{prof}: does not reproduce (errors={rep.get('errors')})")
    return reproduced, "; ".join(details)


def finding_matches(entry, suite, template, violation):
    """A known finding is keyed by suite + template pattern + check label (role), never by run-time data."""
    import fnmatch
    if entry.get("suite") != suite:
        return False
    if not fnmatch.fnmatch(template, entry.get("template", "*")):
        return False
    lab = entry.get("label")
    if lab and lab not in violation.get("label", ""):
        return False
    return True


def run_property(prop, tier, out, jobs=16):
    suites = [(e[0], e[1]) for e in SUITES.get(prop, []) if len(e) < 3 or e[2] == tier]
    if not suites:
        return
    out.coverage["engines"].append("S: substitution-based symbolic execution of /repo sources, z3 -in decides branches and assertions")
    t0 = time.time()
    build_log = os.path.join(LOGS, f"{prop}.sym.build.log")
    binary, err = build_symbolic(build_log)
    if err:
        out.inconclusive.append("S: " + err)
        return
    known = [e for e in load_known_findings(prop) if e.get("status") == "known" and e.get("engine") == "S"]
    natives = None
    replays_done = 0
    max_paths = 60_000 if tier == "quick" else 400_000
    timeout = 1800 if tier == "quick" else 4 * 3600
    try:
        bin_hash = hashlib.sha256(open(binary, "rb").read()).hexdigest()[:20]
        for suite, flt in suites:
            if out.violations and os.environ.get("VERIF_FAILFAST") == "1":
                break  # seeded-change campaigns only need the first confirmed violation
            outdir = os.path.join(CACHE, "sym-out", f"{prop}.{suite}.{os.getpid()}")
            shutil.rmtree(outdir, ignore_errors=True)
            os.makedirs(outdir)
            # Exploration results are a deterministic function of (harness binary, suite, tier, seed):
            # a result computed by the identical binary (same /repo sources, same harness) is reused.
            cache_file = os.path.join(CACHE, "sym-results", f"{bin_hash}.{suite}.{tier}.{seed()}.{max_paths}.jsonl")
            if os.path.exists(cache_file) and os.environ.get("VERIF_NO_CACHE") != "1":
                shutil.copy(cache_file, os.path.join(outdir, "shard0.jsonl"))
                reused = True
            else:
                reused = False
            procs = []
            for i in range(0 if reused else jobs):
                o = os.path.join(outdir, f"shard{i}.jsonl")
                cmd = [binary, "run", suite, "--tier", tier, "--shard", f"{i}/{jobs}", "--seed", str(seed()),
                       "--max-paths", str(max_paths), "--out", o]
                lf = open(os.path.join(LOGS, f"{prop}.sym.{suite}.shard{i}.log"), "w")
                procs.append((subprocess.Popen(cmd, stdout=lf, stderr=subprocess.STDOUT, env=offline_env()), o, lf))
            deadline = time.time() + timeout
            for p, o, lf in procs:
                try:
                    p.wait(timeout=max(1, deadline - time.time()))
                except subprocess.TimeoutExpired:
                    p.kill()
                    out.inconclusive.append(f"S suite {suite}: shard timed out after {timeout}s")
                lf.close()
                if p.returncode not in (0, None, -9):
                    out.inconclusive.append(f"S suite {suite}: harness process exited with {p.returncode} (see logs/{prop}.sym.{suite}.shard*.log)")
            # expected templates
            lst = subprocess.run([binary, "list", suite, "--tier", tier], stdout=subprocess.PIPE, text=True).stdout
            expected = [l.split("\t")[0] for l in lst.splitlines() if l.strip()]
            seen = {}
            outs = [os.path.join(outdir, "shard0.jsonl")] if reused else [o for _, o, _ in procs]
            if reused:
                out.coverage.setdefault("suite_results_reused_from_identical_binary", []).append(suite)
            timed_out = any("timed out" in t for t in out.inconclusive)
            if not reused and not timed_out:
                os.makedirs(os.path.dirname(cache_file), exist_ok=True)
                with open(cache_file + ".tmp", "w") as cf:
                    for o in outs:
                        if os.path.exists(o):
                            cf.write(open(o).read())
                os.replace(cache_file + ".tmp", cache_file)
            for o in outs:
                if not os.path.exists(o):
                    continue
                for line in open(o):
                    line = line.strip()
                    if not line:
                        continue
                    try:
                        rec = json.loads(line)
                    except Exception:
                        out.inconclusive.append(f"S suite {suite}: unparsable result line")
                        continue
                    seen[rec["template"]] = rec
            for tid in expected:
                out.coverage["obligations"] += 1
                rec = seen.get(tid)
                if rec is None:
                    out.inconclusive.append(f"S suite {suite}: template {tid} produced no result")
                    continue
                rep = rec["report"]
                out.coverage["evaluations"] += rep["queries"]
                out.coverage["solver_s"] += rep["solver_s"]
                out.coverage["distinct_nontrivial"] += rep["completed_paths"]
                out.coverage["paths"] = out.coverage.get("paths", 0) + rep["paths"]
                out.coverage["paths_pruned"] = out.coverage.get("paths_pruned", 0) + rep["pruned"]
                out.coverage["assertions_decided"] = out.coverage.get("assertions_decided", 0) + rep["checks"]
                sample = {"engine": "S", "suite": suite, "template": tid, "what": rec["desc"], "paths": rep["paths"],
                          "queries": rep["queries"], "checks": rep["checks"], "exhaustive": rep["exhaustive"],
                          "solver_s": rep["solver_s"], "example_paths": rep["samples"][:2]}
                bad = False
                unlisted = []
                for v in rep["violations"]:
                    if not _belongs(v, flt):
                        continue
                    k = next((e for e in known if finding_matches(e, suite, tid, v)), None)
                    if k is not None:
                        text = f"{k.get('what')} [S {suite}/{tid}: {v['label']}; model {v['model']}]"
                        if not any(text.split(" [S ")[0] == t.split(" [S ")[0] for t in out.known):
                            out.known.append(text)
                        sample.setdefault("known_findings", []).append(v["label"])
                    else:
                        unlisted.append(v)
                for v in unlisted[:2]:
                    if replays_done >= MAX_REPLAYS:
                        out.coverage["counterexamples_not_replayed"] = out.coverage.get("counterexamples_not_replayed", 0) + 1
                        bad = True
                        continue
                    replays_done += 1
                    if natives is None:
                        natives, nerr = build_native(os.path.join(LOGS, f"{prop}.sym.native.build.log"))
                        if nerr:
                            out.inconclusive.append("S: " + nerr)
                            natives = {}
                    os.makedirs(os.path.join(REPLAYS, prop), exist_ok=True)
                    h = hashlib.sha1(json.dumps([suite, tid, v["label"], v["model"]], sort_keys=True).encode()).hexdigest()[:10]
                    rpath = os.path.join(REPLAYS, prop, f"{suite}.{tid}.{h}.json")
                    with open(rpath, "w") as f:
                        json.dump({"engine": "S", "property": prop, "suite": suite, "template": tid, "desc": rec["desc"],
                                   "violation": v}, f, indent=1)
                    ok, detail = native_replay(natives, suite, tid, v["model"]) if natives else (False, "no native build")
                    sample.setdefault("violations", []).append({"label": v["label"], "model": v["model"], "replay": detail})
                    if ok:
                        out.violations.append((rpath, f"S {suite}/{tid}: {v['kind']} `{v['label']}` {v['message'][:300]} model={v['model']}; native replay: {detail}"))
                    else:
                        out.inconclusive.append(f"S {suite}/{tid}: counterexample for `{v['label']}` did not reproduce natively ({detail}); twin/shim suspect")
                    bad = True
                if rep["errors"]:
                    out.inconclusive.append(f"S {suite}/{tid}: {rep['errors'][:3]}")
                    bad = True
                if not rep["exhaustive"] and not rep["errors"]:
                    out.inconclusive.append(f"S {suite}/{tid}: exploration not exhaustive")
                    bad = True
                if not bad and rep["exhaustive"]:
                    out.coverage["discharged"] += 1
                if len([s for s in out.coverage["samples"] if s.get("engine") == "S"]) < 40 or "violations" in sample or "known_findings" in sample:
                    out.coverage["samples"].append(sample)
            shutil.rmtree(outdir, ignore_errors=True)
    finally:
        for b in [binary] + (list(natives.values()) if natives else []):
            try:
                os.remove(b)
            except OSError:
                pass
        # scratch copy of the repository sources is removed as soon as the check is done
        shutil.rmtree(os.path.join(SCRATCH_ROOT, "ws", "syntax", "src"), ignore_errors=True)
        shutil.rmtree(os.path.join(SCRATCH_ROOT, "ws", "oh", "opening-hours"), ignore_errors=True)
        shutil.rmtree(os.path.join(SCRATCH_ROOT, "ws", "compact-calendar", "src"), ignore_errors=True)
    out.merge_list("functions_encoded", FUNCTIONS.get(prop, []))
    out.coverage["s_wall_s"] = round(time.time() - t0, 1)


FUNCTIONS = {
    "C01": ["opening_hours::OpeningHours::schedule_at", "opening_hours::opening_hours::rule_sequence_schedule_at",
            "opening_hours::filter::time_filter::{time_selector_intervals_at, time_selector_intervals_at_next_day, TimeSpan::as_naive}",
            "opening_hours::utils::range::{ranges_union, range_intersection}", "opening_hours::schedule::Schedule::{from_ranges, addition, insert}",
            "opening_hours::filter::date_filter::DaySelector::filter (concrete dates)"],
    "C02": ["opening_hours::OpeningHours::{iter_range, iter_range_naive, next_change_hint, schedule_at}", "opening_hours::opening_hours::TimeDomainIterator::{new, next, consume_until_next_kind}",
            "opening_hours::schedule::IntoIter::next", "opening_hours_syntax::rules::OpeningHoursExpression::is_constant", "opening_hours::filter::date_filter::*::next_change_hint (concrete dates)"],
    "C03": ["opening_hours::OpeningHours::{state, is_open, is_closed, is_unknown, next_change, iter_from}", "opening_hours::opening_hours::TimeDomainIterator::{new, next, consume_until_next_kind}"],
    "C04": ["every function reached by the suites c14, c01, c02, c03, c08, c16 (a panic on any feasible path is a counterexample)"],
    "C07": ["opening_hours_syntax::rules::OpeningHoursExpression::normalize", "opening_hours_syntax::normalize::{ruleseq_to_selector, canonical_to_seq}",
            "opening_hours_syntax::normalize::paving::{Dim::set, Dim::is_val, Dim::pop_filter, Dim::cut_at}", "opening_hours_syntax::normalize::canonical::MakeCanonical::*",
            "opening_hours_syntax::normalize::frame::{Frame::to_range_strict, Frame::to_range_inclusive, Bounded::split_inverted_range}", "opening_hours::OpeningHours::schedule_at"],
    "C13": ["opening_hours_syntax::rules::OpeningHoursExpression::normalize (twice)", "PartialEq on OpeningHoursExpression", "opening_hours_syntax::normalize::*"],
    "C08": ["opening_hours::OpeningHours::{state, next_change, iter_range, iter_range_naive, next_change_hint, schedule_at}"],
    "C09": ["opening_hours::localization::TzLocation::{naive, datetime}", "opening_hours::OpeningHours::<TzLocation<_>>::{state, iter_range}"],
    "C16": ["opening_hours::opening_hours::TimeDomainIterator::{next, consume_until_next_kind} with Context::approx_bound_interval_size"],
    "C17": ["opening_hours::schedule::Schedule::{from_ranges, insert}", "opening_hours::schedule::IntoIter::next", "opening_hours_syntax::sorted_vec::UniqueSortedVec::union",
            "opening_hours::opening_hours::TimeDomainIterator::next"],
    "C14": ["opening_hours::schedule::Schedule::{from_ranges, addition, insert, is_empty}", "opening_hours::schedule::IntoIter::next",
            "opening_hours_syntax::sorted_vec::UniqueSortedVec::union"],
    "C20": ["opening_hours_syntax::sorted_vec::UniqueSortedVec::{from, union, contains, find_first_following}"],
}


def run_replay(prop, path):
    rec = json.load(open(path))
    natives, err = build_native(os.path.join(LOGS, f"{prop}.sym.native.build.log"))
    if err:
        return None, err
    try:
        ok, detail = native_replay(natives, rec["suite"], rec["template"], rec["violation"]["model"])
    finally:
        for b in natives.values():
            try:
                os.remove(b)
            except OSError:
                pass
    return ok, detail


if __name__ == "__main__":
    import sys
    if "--setup" in sys.argv:
        b, err = build_symbolic(os.path.join(LOGS, "setup.sym.build.log"))
        if err:
            print(err)
            sys.exit(1)
        os.remove(b)
        n, err = build_native(os.path.join(LOGS, "setup.sym.native.build.log"))
        if err:
            print(err)
            sys.exit(1)
        for x in n.values():
            os.remove(x)
        print("engine S built")
