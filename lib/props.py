"""Per-property registry: engines, stated bounds, stubs and assumptions (copied into evidence)."""

YEARS = "dates: every calendar day with year in 1900..=9999 (symbolic year + ordinal)"
S_TIMES = "times: every time span end-point is a symbolic minute (start 00:00..=24:00, end 00:00..=48:00, any order), rule kinds are forked over open / closed / unknown"
S_TWIN = ("ExtendedTime is replaced by its minute-counter twin (symex/twin/extended_time.rs); engine K proves the real type equal to that "
          "specification over its whole domain (C19)")
S_SHIM = ("chrono is replaced by symex/chrono-shim (dates = real chrono 0.4.39 or symbolic day numbers, times/durations/offsets = symbolic seconds; "
          "sub-second precision not modelled); trusted, written from chrono's documented contracts")
S_REPLAY = "every counterexample is replayed natively against the real, unsubstituted crates (dev and release profile) before it is reported"
S_PROBE = "probe days: the week of Wednesday 2024-06-12 (concrete dates, holidays 2024-06-12/13 in the context)"

PROPS = {
    "C01": {
        "engines": ["K", "S"],
        "bounds": [
            "K: " + YEARS + "; year ranges a<=b with every step, week ranges (wrapping only with step 1), month ranges (wrapping only without year), weekday ranges with all 2^10 nth masks "
            "(day offset 0 in quick, -3..=3 and +-7/+-31 in thorough), PH/SH against a calendar of two symbolic holidays (offset -2..=2, years 2023..=2026), "
            "conjunction/disjunction of selector groups, valid_ymd clamping (all y/m/d), DateOffset::apply for offsets 0, +1 (quick), -2, +40 (thorough), Easter a Sunday in Mar 22..Apr 25 for every year",
            "S c01: " + S_PROBE + "; 1-3 rules, every operator, <=2 spans per rule; " + S_TIMES,
            "S c01d: dated ranges ([year] Mon dd [+-weekday] [+-n days], Easter, open end) from a family of 24 (quick) / 31 (thorough) shapes, the evaluated day is a SYMBOLIC date over 2019-01-01..=2025-12-31",
        ],
        "outside_bounds": [
            "wrapping year ranges, week ranges that wrap and have a step, month ranges that wrap and carry a year (semantics undocumented, excluded by assume)",
            "dated-range end points outside the template family; weekday day-offsets outside the listed windows; more than 3 rules or 2 spans per rule",
            "a spill-over from the previous day meeting a fallback rule: both readings of 'covered' are accepted",
            "parse(): expressions are built as ASTs (the pest parser cannot be executed symbolically)",
        ],
        "stubs": ["K: count_days_in_month -> arithmetic month length in the weekday harnesses (equivalence proved by c01_q_count_days_in_month in the same run)"],
        "assumptions": [S_TWIN, S_SHIM, S_REPLAY, "oracles written from the property text / OSM specification, calibrated against the expectations of the upstream test-suite"],
        "explanation": "K: differential harnesses real filter(date) == arithmetic oracle over all dates and field values. S: the real schedule_at runs with symbolic span end-points; "
                       "the kind at a symbolic minute is compared with a pointwise reference fold of the documented rule combination; dated ranges run with a symbolic date.",
    },
    "C02": {
        "engines": ["K", "S"],
        "bounds": [
            "K (one inductive step, all dates 1900..=9999, d and d' symbolic): year hint step 1 and step 2..=16 (17..=128 thorough), month hint (wrapping allowed), week hint step 1 and 2..=8",
            "S c02: iter_range over [2024-06-11 + from_s, 2024-06-14 + to_s) (3 more windows in thorough) with symbolic seconds, 1-3 rules from a family of 13 (quick) / 24 (thorough) selectors; " + S_TIMES,
            "S c02d: selector hint lemma with a SYMBOLIC date d in 2019..=2025 and d' in d+1..=d+370 (800 thorough) for 50+ selector shapes (years with steps, months with/without year, weeks, PH/SH with offsets, every dated-range shape of C01, combinations)",
            "S c02e: expression-level lemma (every day strictly between d and OpeningHours::next_change_hint(d) is one full-day range continuing the state in which d ends), symbolic d in 2019..=2025, 14 (16) expressions incl. the defects named by the property",
        ],
        "outside_bounds": ["windows longer than 4 days end-to-end (covered through the lemma only)", "week hints with a step above 8, year steps above 128", "dates outside 2019..=2025 for the selectors K cannot reach (dated ranges, month+year, holidays, combinations)"],
        "stubs": [],
        "assumptions": [S_TWIN, S_SHIM, S_REPLAY, "the pointwise oracle of the stream is the real schedule_at (as the property defines it)"],
        "explanation": "Skipping days is sound iff a local fact holds for every skipped day: decided per selector (K over all dates, S with symbolic dates) and per expression (S); "
                       "the stitching of the stream (non-empty, increasing, gap-free, clipped, alternating states, state = daily schedule at every instant) is decided on windows of concrete days with symbolic times.",
    },
    "C03": {
        "engines": ["S"],
        "bounds": ["query instant = 2024-06-12 (also 06-11, 06-13 in thorough) + symbolic second of day; expression family of C02; changes up to 400 days ahead are checked against every day in between, farther ones on the first 400 days and the last 2"],
        "outside_bounds": ["next_change is not called when the state is constant for 8 days and the selectors have no far-reaching hints (the evaluator then walks day by day to year 9999: bounded but long)", "sub-second instants"],
        "stubs": [],
        "assumptions": [S_TWIN, S_SHIM, S_REPLAY],
        "explanation": "state(t) against the daily schedule at t, is_* against state, next_change(t): strictly later, state differs there, no earlier change at any symbolic instant in between, none only if no change.",
    },
    "C04": {
        "engines": ["K", "S"],
        "bounds": ["S: every feasible path of every suite (c14, c01, c01d, c02, c02d, c02e, c03, c07, c08, c09, c16) runs under catch_unwind: a panic of the code under test is a counterexample; each path terminates under a decision budget",
                   "K: every kernel harness of C01/C02/C07/C11/C15/C19 carries Kani's panic / overflow / unwrap / index checks; c04_* harnesses use full-width fields (i64 day offsets; year ranges with any step 1..=65535 and any bounds 1900..=9999 on any chrono date)",
                   "S c16: interval-size bounds within 3 days of TimeDelta::MAX, and zero / negative bounds (-3 days..=0, symbolic seconds): range iteration terminates and makes progress"],
        "outside_bounds": ["parse(&str) itself (pest): e.g. the '10:00-12:00/30' panic inside build_timespan is not reachable by this family here", "Display / fmt", "contexts built by from_coords (geodata)",
                           "dates outside the windows of the suites (K kernels: all chrono dates only in the c04_* / c08_* harnesses)"],
        "stubs": [],
        "assumptions": [S_TWIN, S_SHIM, S_REPLAY],
        "explanation": "No panic on any explored path of the evaluator, normalizer, schedule algebra, iterator and zone plumbing; kernels free of arithmetic overflow for all field values.",
    },
    "C07": {
        "engines": ["K", "S"],
        "bounds": ["K: the real MakeCanonical pipeline (selector -> canonical exclusive ranges -> selector) denotes the same set for every year range a<=b, every month / week / weekday range incl. wrapping ones; non-canonical selectors are refused",
                   "S: 1-3 rules from a family of 16 (25) canonical and 3 non-canonical selectors incl. frame ends (week 52/53, December, Sunday, 9999), every operator; " + S_TIMES + "; original and normalized expression evaluated by the real schedule_at on 24 probe days (every weekday, month ends, leap day, ISO week 53, 1900-01-01, 9999-12-31) and compared at a symbolic minute"],
        "outside_bounds": ["days other than the 24 probe days (the day dimension of the paving is exercised through the probe set and through K's range conversions)", "more than 3 rules"],
        "stubs": [],
        "assumptions": [S_TWIN, S_SHIM, S_REPLAY],
        "explanation": "normalize() runs for real on symbolic spans (paving cuts fork through the solver); meaning preserved at every minute of every probe day.",
    },
    "C08": {
        "engines": ["S"],
        "bounds": ["S: windows 1899-12-30..1900-01-02, 9999-12-30..10000-01-02, 1700-03-01..03, 12000-03-01..03, 9999-12-31 and three windows in years congruent to 2024 modulo 2^16, symbolic seconds at both ends; 5 expression shapes with symbolic spans/kinds",
                   "S c16: with an interval-size bound in the context, no reported interval of iter_range leaves the requested window"],
        "outside_bounds": ["other expressions; selector hints beyond 10000-01-01 are tolerated (the iterator clips them)"],
        "stubs": [],
        "assumptions": [S_TWIN, S_SHIM, S_REPLAY],
        "explanation": "closed outside the range, no interval before the requested start or after min(end, 10000-01-01), next_change never at/after 10000-01-01, from before 1900 the first non-closed instant.",
    },
    "C09": {
        "engines": ["S"],
        "bounds": ["a stub TimeZone with ONE arbitrary transition: UTC instant, old and new offset all symbolic (whole minutes, |offset| <= 14h, gap / fold <= 65 min (180 thorough); every skipped minute of a 1500 min gap (zones that skipped a whole day); monotonicity and evaluation equivalence: jump <= 12 / 65 min); naive local times on every minute of the 3 days around the transition",
                   "evaluation equivalence (state, iter_range over one day) on 2 (3) expressions with concrete spans"],
        "outside_bounds": ["real IANA tables (chrono-tz data), zones with several transitions inside one query window, offsets with seconds, sub-minute naive times in gaps"],
        "stubs": ["chrono::TimeZone implemented by a stub that returns None / Single / Ambiguous(earliest, latest) per chrono's documented contract"],
        "assumptions": [S_TWIN, S_SHIM, S_REPLAY, "native replay uses the same stub on top of the real chrono TimeZone trait"],
        "explanation": "The real TzLocation::{naive, datetime} and the zone plumbing of iter_range/state run against the stub zone; results compared with arithmetic on the symbolic offsets.",
    },
    "C11": {
        "engines": ["K", "S"],
        "bounds": ["K: Coordinates::new over all 2^128 pairs of f64 bit patterns", "K: default events on every date 1900..=9999", "K: event offset arithmetic for every i16 offset",
                   "S (c09 suite, labels `events:`): TzLocation::event_time with coordinates on 3 (date, coordinates) pairs (one before 1970, one inside the zone's transition window): the UTC instant of each of the four events is ANY second of the date (sunrise stub), the zone has one symbolic transition (offsets within +-14 h, whole minutes): the result is the time of day of that instant in the context zone; default times for a zone context without coordinates"],
        "outside_bounds": ["dawn < sunrise < noon < sunset < dusk (floating-point trigonometry in the sunrise crate)", "zone inference from coordinates (tzf-rs polygons)", "'every accepted pair yields a zone and evaluates'"],
        "stubs": ["S: the `sunrise` crate is replaced by a stub returning an arbitrary UTC instant of the requested date per (date, event); native replay uses the real crate"],
        "assumptions": ["CBMC's bit-precise IEEE-754 semantics", S_TWIN, S_SHIM, S_REPLAY],
        "explanation": "Partial claim: coordinate acceptance, documented default event times, event + offset arithmetic with the 00:00 fallback, UTC event -> context-zone wall-clock conversion.",
    },
    "C13": {
        "engines": ["S"],
        "bounds": ["same templates as C07: normalize(normalize(e)) == normalize(e) and normalize(e) == normalize(e.clone()) as structural equality of the ASTs on every path"],
        "outside_bounds": ["the 'printable and reparseable' clause (C06 is not applicable: pest + fmt)"],
        "stubs": [],
        "assumptions": [S_TWIN, S_SHIM, S_REPLAY],
        "explanation": "Idempotence and determinism of the real normalize() on symbolic spans.",
    },
    "C14": {
        "engines": ["S"],
        "bounds": ["from_ranges over n <= 3 (4 thorough) arbitrary ranges in 00:00..=24:00 (any order, empty, inverted, nested, adjacent)", "addition of 2 schedules of <= 2 ranges each and of 3 single-range schedules, every kind combination",
                   "day iteration of every such sum and of schedules built from <= 2 (3) additions with symbolic kinds"],
        "outside_bounds": ["more ranges / operands", "ranges beyond 24:00"],
        "stubs": [],
        "assumptions": [S_TWIN, S_REPLAY],
        "explanation": "Invariant (disjoint, increasing, non-empty), coverage and overlay semantics at a symbolic minute, gap-free alternating tiling.",
    },
    "C15": {
        "engines": ["K"],
        "bounds": ["CompactMonth: every operation for all 2^31 day sets and all days (iteration: sets of <= 4 days)", "CompactYear: every operation for all 12 x 31-bit day sets and all (month, day); serialize -> deserialize identity and exact byte consumption",
                   "CompactCalendar, by induction over insertion histories: every reachable state of 1, 2 or 3 stored years (any first year -261600..=261999, every set of existing dates per stored year, first and last year non-empty, ring buffer wrapping at any position): contains and count at any date of chrono's range; first_after against its set-theoretic specification (quick: 3 stored years for queries from the first stored year on, 2 stored years for queries before the window; thorough: 1, 2, 3 stored years for both); one insert of any date up to 3 years before / after the window gives exactly the predicted state and re-establishes the invariant (window = [min year, max year]); derived equality = set equality (windows of 1-2 years, first years <= 2 apart)",
                   "thorough only: insert into the empty calendar (base case), first_after on 1 and 2 stored years, contains / count / insert on 2 stored years"],
        "outside_bounds": ["calendars whose window holds more than 3 stored years before the operation (6 after an insert), inserts more than 3 years outside the window", "std's VecDeque itself (replaced by a bounded model of its documented contract for the calendar layer; changes that depend on the physical layout beyond as_slices are not visible)", "Hash / Ord / Debug of calendars", "ordered iteration of a whole calendar, calendar-level serialize / deserialize framing, first_after from before the window on 3 stored years: harnesses written (disabled_c15_t_cal_*) but not shown to finish within the time limit, not registered (the month / year layers' iteration and framing are decided completely)"],
        "stubs": ["calendar layer only: compact-calendar/src/lib.rs (copied verbatim from /repo at check time) is compiled with `std::collections::VecDeque` replaced by kani/src/model_deque.rs (array-backed, capacity 6, references at concrete offsets, as_slices split chosen by the harness); counterexamples are replayed on the real std VecDeque"],
        "assumptions": ["the bounded deque model implements std's documented VecDeque contract for the methods compact-calendar uses (get, get_mut, push_front, push_back, front_mut, back_mut, len, is_empty, iter, FromIterator, Eq/Ord/Hash, as_slices)"],
        "explanation": "Bit-set model comparison over the complete input space of the month / year layers; set-of-dates model for the calendar layer by one inductive step from every reachable state of <= 3 stored years.",
    },
    "C16": {
        "engines": ["S"],
        "bounds": ["bound B symbolic in 1..=5 days (9 thorough) with second granularity, query instant 2024-06-12 + symbolic second, expression family of C02; the exact answer is taken from the unbounded evaluator on a window of max(B) + 2 days"],
        "outside_bounds": ["bounds of months or years (each day-step forks on B)"],
        "stubs": [],
        "assumptions": [S_TWIN, S_SHIM, S_REPLAY],
        "explanation": "state unchanged; a reported change is the exact one; exact whenever at most B - 24h away; none whenever more than B away.",
    },
    "C17": {
        "engines": ["S"],
        "bounds": ["day schedules of the C01 templates with distinct comments c0/c1/c2 on the rules; first interval of the C02 streams"],
        "outside_bounds": ["more than 3 rules / 3 distinct comments"],
        "stubs": [],
        "assumptions": [S_TWIN, S_SHIM, S_REPLAY],
        "explanation": "sorted, duplicate-free, taken from the expression, empty when no rule contributes, single-rule provenance, first interval carries the comments of the period containing the start.",
    },
    "C19": {
        "engines": ["K"],
        "bounds": ["complete: every (hour, minute) in u8 x u8, every minute count in u16, every offset in i16 / i8; no loop, no unwinding bound"],
        "outside_bounds": ["Display zero-padding (core::fmt is not executed symbolically)"],
        "stubs": [],
        "assumptions": ["chrono 0.4.39 NaiveTime accessors as compiled by Kani"],
        "explanation": "Kani harnesses compare the real ExtendedTime against an integer minute-counter specification over the whole input domain.",
    },
    "C20": {
        "engines": ["S"],
        "bounds": ["From<Vec<T>> + contains + find_first_following for vectors of <= 4 (6 thorough) symbolic integers", "union of sorted-unique operands of lengths <= 3 (5) each"],
        "outside_bounds": ["longer vectors"],
        "stubs": [],
        "assumptions": ["the real generic code is instantiated at T = symbolic integer (Ord / Eq fork through the solver); no substitution"],
        "explanation": "sorted-unique result, membership = union of memberships at a symbolic probe, least element not smaller than the probe.",
    },
}

HOOK_COMMITS = ["3b45d39", "83997c5", "d8fb50b"]

# Every property that has no entry in PROPS is listed with its reason.
NOT_APPLICABLE = {
    "C05": "deciding what parse() builds needs symbolic execution of the pest-generated parser; even a concrete 4-byte input does not get through Kani's symbolic execution in 900 s, and the AST builders only accept pest Pairs that cannot be built without running the parser",
    "C06": "the round trip is parse(to_string(e)): same pest obstacle as C05, plus core::fmt, which has to be stubbed out under Kani so the printed text is not available to the solver",
    "C10": "equality between a data file and a build artefact (build.rs -> deflate -> env!/include_bytes! -> lazy inflate): no input to make symbolic; file I/O, build scripts and (de)compression cannot be encoded",
    "C12": "the observable is the extension module inside CPython; the pyo3/FFI boundary and the interpreter are outside every engine installed here",
    "C18": "a statement about thread interleavings and first-use order of LazyLock/Once statics; Kani does not model concurrency and the symbolic-execution engine is single-threaded by construction",
}
