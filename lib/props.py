"""Per-property registry: engines, stated bounds, stubs and assumptions (copied into evidence)."""

YEARS = "dates: every calendar day with year in 1900..=9999 (symbolic year + ordinal)"

PROPS = {
    "C19": {
        "engines": ["K"],
        "bounds": ["complete: every (hour, minute) in u8 x u8, every minute count in u16, every offset in i16 / i8; no loop, no unwinding bound"],
        "outside_bounds": ["Display zero-padding (core::fmt is not executed symbolically)"],
        "stubs": [],
        "assumptions": ["chrono 0.4.39 NaiveTime accessors as compiled by Kani"],
        "explanation": "Kani harnesses compare the real ExtendedTime against an integer minute-counter specification over the whole input domain.",
    },
}

PROPS["C15"] = {
    "engines": ["K"],
    "bounds": [],
    "outside_bounds": [],
    "stubs": [],
    "assumptions": [],
    "explanation": "",
}
PROPS["C11"] = {
    "engines": ["K"],
    "bounds": [],
    "outside_bounds": [],
    "stubs": [],
    "assumptions": [],
    "explanation": "",
}

PROPS["C14"] = {
    "engines": ["S"],
    "bounds": [],
    "outside_bounds": [],
    "stubs": [],
    "assumptions": [],
    "explanation": "",
}
PROPS["C20"] = {
    "engines": ["S"],
    "bounds": [],
    "outside_bounds": [],
    "stubs": [],
    "assumptions": [],
    "explanation": "",
}

PROPS["C01"] = {
    "engines": ["K", "S"],
    "bounds": [],
    "outside_bounds": [],
    "stubs": [],
    "assumptions": [],
    "explanation": "",
}
PROPS["C17"] = {
    "engines": ["S"],
    "bounds": [],
    "outside_bounds": [],
    "stubs": [],
    "assumptions": [],
    "explanation": "",
}

PROPS["C02"] = {
    "engines": ["S"],
    "bounds": [],
    "outside_bounds": [],
    "stubs": [],
    "assumptions": [],
    "explanation": "",
}
PROPS["C03"] = {
    "engines": ["S"],
    "bounds": [],
    "outside_bounds": [],
    "stubs": [],
    "assumptions": [],
    "explanation": "",
}
PROPS["C04"] = {
    "engines": ["S"],
    "bounds": [],
    "outside_bounds": [],
    "stubs": [],
    "assumptions": [],
    "explanation": "",
}
PROPS["C08"] = {
    "engines": ["S"],
    "bounds": [],
    "outside_bounds": [],
    "stubs": [],
    "assumptions": [],
    "explanation": "",
}
PROPS["C16"] = {
    "engines": ["S"],
    "bounds": [],
    "outside_bounds": [],
    "stubs": [],
    "assumptions": [],
    "explanation": "",
}

PROPS["C09"] = {
    "engines": ["S"],
    "bounds": [],
    "outside_bounds": [],
    "stubs": [],
    "assumptions": [],
    "explanation": "",
}

PROPS["C07"] = {
    "engines": ["S"],
    "bounds": [],
    "outside_bounds": [],
    "stubs": [],
    "assumptions": [],
    "explanation": "",
}
PROPS["C13"] = {
    "engines": ["S"],
    "bounds": [],
    "outside_bounds": [],
    "stubs": [],
    "assumptions": [],
    "explanation": "",
}

HOOK_COMMITS = ["3b45d39", "83997c5"]

# Every property that has no entry in PROPS is listed with its reason.
NOT_APPLICABLE = {
    "C01": "pending: harnesses under construction in this session",
    "C02": "pending: harnesses under construction in this session",
    "C03": "pending: harnesses under construction in this session",
    "C04": "pending: harnesses under construction in this session",
    "C05": "deciding what parse() builds needs symbolic execution of the pest-generated parser; even a concrete 4-byte input does not get through Kani's symbolic execution in 900 s, and the AST builders only accept pest Pairs that cannot be built without running the parser",
    "C06": "the round trip is parse(to_string(e)): same pest obstacle as C05, plus core::fmt, which has to be stubbed out under Kani so the printed text is not available to the solver",
    "C07": "pending: harnesses under construction in this session",
    "C08": "pending: harnesses under construction in this session",
    "C09": "pending: harnesses under construction in this session",
    "C10": "equality between a data file and a build artefact (build.rs -> deflate -> env!/include_bytes! -> lazy inflate): no input to make symbolic; file I/O, build scripts and (de)compression cannot be encoded",
    "C11": "pending: harnesses under construction in this session",
    "C12": "the observable is the extension module inside CPython; the pyo3/FFI boundary and the interpreter are outside every engine installed here",
    "C13": "pending: harnesses under construction in this session",
    "C14": "pending: harnesses under construction in this session",
    "C15": "pending: harnesses under construction in this session",
    "C16": "pending: harnesses under construction in this session",
    "C17": "pending: harnesses under construction in this session",
    "C18": "a statement about thread interleavings and first-use order of LazyLock/Once statics; Kani does not model concurrency and the symbolic-execution engine is single-threaded by construction",
    "C20": "pending: harnesses under construction in this session",
}
