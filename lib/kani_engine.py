"""Engine K: Kani / CBMC bounded model checking of the compiled real code.

Harnesses live in /verif/kani/src/*.rs (path dependencies on /repo with the `verif`
feature, so every run rebuilds from the current working tree).  Naming convention:

    cNN_q_<name>    runs in quick and thorough
    cNN_t_<name>    runs in thorough only
    cNN_kf_<name>   asserts the property on a region carved out of a q/t harness because a
                    genuine defect is recorded there (known_findings.json, key = harness name);
                    a failure is a KNOWN-FINDING when listed, a VIOLATION otherwise.

Every harness must end in at least one satisfied `kani::cover!` (vacuity witness); unwinding
assertions stay on, so a too-small bound is reported as inconclusive, never as success.
"""
import glob
import json
import os
import re
import resource
import shutil
import subprocess
import time

from common import CACHE, LOGS, REPLAYS, VERIF, load_known_findings, offline_env

KANI_DIR = os.path.join(VERIF, "kani")
HARNESS_RE = re.compile(r"#\[kani::proof\][^{]*?fn\s+(c\d\d_(?:q|t|kf)_\w+)\s*\(", re.S)
DOC_RE = re.compile(r"((?:\s*///[^\n]*\n)+)\s*#\[kani::proof\][^{]*?fn\s+(c\d\d_(?:q|t|kf)_\w+)\s*\(", re.S)


def list_harnesses(prop):
    """All harnesses for a property id, with their module and doc comment."""
    out = {}
    for path in sorted(glob.glob(os.path.join(KANI_DIR, "src", "*.rs"))):
        src = open(path).read()
        mod = os.path.splitext(os.path.basename(path))[0]
        docs = {name: " ".join(l.strip().lstrip("/").strip() for l in doc.strip().splitlines())
                for doc, name in DOC_RE.findall(src)}
        for name in HARNESS_RE.findall(src):
            if name.startswith(prop.lower() + "_"):
                out[name] = {"module": mod, "file": path, "doc": docs.get(name, "")}
    return out


def _limit_mem(gb):
    def f():
        lim = int(gb * (1 << 30))
        resource.setrlimit(resource.RLIMIT_AS, (lim, lim))
    return f


def run_kani(harnesses, target_dir, timeout_s, jobs, log_path, extra=None, crate_dir=KANI_DIR, mem_gb=14):
    """One `cargo kani` invocation over a set of harnesses. Returns parsed export-json or None."""
    json_path = log_path + ".json"
    if os.path.exists(json_path):
        os.remove(json_path)
    cmd = ["cargo", "kani", "--target-dir", target_dir, "-Z", "unstable-options", "-Z", "stubbing",
           "--harness-timeout", f"{int(timeout_s)}s", "-j", str(jobs), "--output-format", "terse",
           "--export-json", json_path, "--exact"]
    for h in harnesses:
        cmd += ["--harness", h]  # fully qualified: module::name
    cmd += extra or []
    t0 = time.time()
    with open(log_path, "w") as log:
        log.write("$ " + " ".join(cmd) + "\n")
        log.flush()
        try:
            # the rlimit applies to cargo, kani-compiler and every cbmc child
            p = subprocess.run(cmd, cwd=crate_dir, env=offline_env(), stdout=log, stderr=subprocess.STDOUT,
                               timeout=timeout_s * (1 + len(harnesses) // max(1, jobs)) + 900)
            rc = p.returncode
        except subprocess.TimeoutExpired:
            rc = -9
    wall = time.time() - t0
    data = None
    if os.path.exists(json_path):
        try:
            data = json.load(open(json_path))
        except Exception:
            data = None
    return rc, wall, data


# per-harness time limits above the defaults (measured: the calendar-layer harnesses of C15 need 60..1200 s each)
HARNESS_TIMEOUT = {("C15", "quick"): 1500, ("C15", "thorough"): 3600}

UNWIND_PAT = re.compile(r"unwinding assertion|recursion unwinding", re.I)


def classify(res):
    """Classify one entry of verification_results.results.

    Returns (verdict, detail) with verdict in
      pass | fail | unwind | vacuous | inconclusive
    """
    status = res.get("status")
    checks = res.get("checks", [])
    failed = [c for c in checks if c.get("status") in ("Failure", "FAILURE")]
    covers = [c for c in checks if c.get("category") == "cover" or c.get("status") in ("Satisfied", "Unsatisfiable", "SATISFIED", "UNSATISFIABLE")]
    cover_ok = [c for c in covers if str(c.get("status")).lower() == "satisfied"]
    undet = [c for c in checks if str(c.get("status")).lower() in ("undetermined", "solver_error")]
    if status == "Success":
        if not covers or len(cover_ok) != len(covers):
            bad = [c.get("description") for c in covers if c not in cover_ok]
            return "vacuous", f"cover checks not satisfied: {bad or 'no cover in harness'}"
        return "pass", ""
    real_fail = [c for c in failed if not UNWIND_PAT.search(c.get("description", ""))]
    if real_fail:
        c = real_fail[0]
        loc = c.get("location", {})
        return "fail", f"{c.get('description')} @ {loc.get('file')}:{loc.get('line')} in {c.get('function')}"
    if failed:
        return "unwind", failed[0].get("description", "")
    if undet and not failed:
        return "inconclusive", f"status={status} undetermined checks={len(undet)}"
    return "inconclusive", f"status={status} (timeout, out of memory or tool error)"


def replay_counterexample(prop, harness, info, tier):
    """Ask Kani for a concrete playback test and run it natively against the real build.

    Returns (reproduced: bool|None, replay_path, text). None = could not produce a test.
    """
    work = os.path.join(CACHE, "replay", harness)
    shutil.rmtree(work, ignore_errors=True)
    os.makedirs(os.path.dirname(work), exist_ok=True)
    shutil.copytree(KANI_DIR, work, ignore=shutil.ignore_patterns("target"))
    tdir = os.path.join(CACHE, "kani-replay-target")
    log = os.path.join(LOGS, f"{prop}.{harness}.playback.log")
    cmd = ["cargo", "kani", "--target-dir", tdir, "-Z", "unstable-options", "-Z", "stubbing",
           "-Z", "concrete-playback", "--concrete-playback=print", "--harness-timeout", "1800s",
           "--exact", "--harness", f"{info['module']}::{harness}"]
    with open(log, "w") as lf:
        subprocess.run(cmd, cwd=work, env=offline_env(), stdout=lf, stderr=subprocess.STDOUT, timeout=3600)
    # the unit test is printed between ``` fences; it is appended to the harness module by run_playback
    src = open(log).read()
    # Kani prints one test per failed check AND one per satisfied cover: only the former are counterexamples
    tests = []
    for chunk in src.split("/// Check for `")[1:]:  # the description may span several lines
        kind = chunk.split("`", 1)[0]
        mt = re.search(r"(#\[test\]\s*fn kani_concrete_playback_" + re.escape(harness) + r"\w*\s*\(\)\s*\{.*?\n\}\n)", chunk, re.S)
        if mt:
            tests.append((kind, mt.group(1)))
    cex = [t for kind, t in tests if kind != "cover"]
    if not tests:  # older output without the header
        cex = re.findall(r"(#\[test\]\s*fn kani_concrete_playback_" + re.escape(harness) + r"\w*\s*\(\)\s*\{.*?\n\}\n)", src, re.S)[:1]
    os.makedirs(os.path.join(REPLAYS, prop), exist_ok=True)
    rpath = os.path.join(REPLAYS, prop, f"{harness}.playback.rs")
    if not cex:
        return None, rpath, "Kani produced no concrete playback test"
    with open(rpath, "w") as f:
        f.write(f"// engine=K property={prop} harness={harness} module={info['module']}\n")
        f.write(cex[0])
    ok, text = run_playback(prop, rpath)
    return ok, rpath, text


def run_playback(prop, rpath, work_ready=None):
    """Run a saved playback test natively (dev profile and release profile)."""
    text = open(rpath).read()
    m = re.search(r"harness=(\w+) module=(\w+)", text)
    harness, module = m.group(1), m.group(2)
    work = work_ready
    if work is None:
        work = os.path.join(CACHE, "replay", harness)
        shutil.rmtree(work, ignore_errors=True)
        shutil.copytree(KANI_DIR, work, ignore=shutil.ignore_patterns("target"))
        # native playback runs compact-calendar's source on the REAL std VecDeque, not on the model
        shutil.copy(os.path.join(KANI_DIR, "model_deque_real.rs"), os.path.join(work, "src", "model_deque.rs"))
        with open(os.path.join(work, "src", module + ".rs"), "a") as f:
            f.write("\n" + text.split("\n", 1)[1])
    tname = re.search(r"fn (kani_concrete_playback_\w+)", text).group(1)
    results = []
    for prof in ([], ["--release"]):
        log = os.path.join(LOGS, f"{prop}.{harness}.replay{'.release' if prof else ''}.log")
        cmd = ["cargo", "kani", "playback", "-Z", "concrete-playback"] + prof + ["--", tname]
        with open(log, "w") as lf:
            env = offline_env()
            env["CARGO_TARGET_DIR"] = os.path.join(CACHE, "kani-playback-target")
            p = subprocess.run(cmd, cwd=work, env=env, stdout=lf, stderr=subprocess.STDOUT, timeout=3600)
        out = open(log).read()
        failed = ("test result: FAILED" in out) or ("panicked at" in out)
        ran = "running 1 test" in out
        results.append((ran, failed, log))
    reproduced = any(ran and failed for ran, failed, _ in results)
    if not any(ran for ran, _, _ in results):
        return None, "playback test did not run; see " + results[0][2]
    return reproduced, f"native playback {'reproduces' if reproduced else 'does NOT reproduce'} (dev+release); logs {results[0][2]}"


def run_property(prop, tier, out, timeout_q=900, timeout_t=3600, jobs=16):
    """Run all K harnesses for a property and fold the results into `out` (Outcome)."""
    hs = list_harnesses(prop)
    if not hs:
        return
    try:
        import gen_cc
        gen_cc.generate()  # compact-calendar's current source against the bounded deque model (C15 calendar layer)
    except SystemExit as e:
        out.inconclusive.append(f"K: {e}")
        return
    sel = [h for h in hs if "_q_" in h or "_kf_" in h or (tier == "thorough" and "_t_" in h)]
    sel.sort()
    only = os.environ.get("VERIF_K_ONLY")  # debugging aid (seed campaign): regex over harness names; evidence is then partial
    if only:
        sel = [h for h in sel if re.search(only, h)]
        if not sel:
            return
    known = {e["key"]: e for e in load_known_findings(prop) if e.get("status") == "known" and e.get("engine") == "K"}
    timeout = timeout_q if tier == "quick" else timeout_t
    timeout = max(timeout, HARNESS_TIMEOUT.get((prop, tier), 0))
    # one shared target directory: dependencies are compiled once (setup), cargo's own lock serialises concurrent runs
    tdir = os.path.join(CACHE, "kani-target", "shared")
    log = os.path.join(LOGS, f"{prop}.kani.{tier}.log")
    rc, wall, data = run_kani([f"{hs[h]['module']}::{h}" for h in sel], tdir, timeout, jobs, log)
    out.coverage["engines"].append("K: Kani 0.68 / CBMC 6.11 (cadical) over the compiled real crates")
    if data is None:
        out.inconclusive.append(f"K: cargo kani produced no result file (rc={rc}); see {log}")
        return
    results = {r["harness_id"].split("::")[-1]: r for r in data.get("verification_results", {}).get("results", [])}
    stats = {c["harness_id"].split("::")[-1]: (c.get("cbmc_stats") or {}) for c in data.get("cbmc", [])}
    funcs = set()
    for name in sel:
        r = results.get(name)
        out.coverage["obligations"] += 1
        if r is None:
            out.inconclusive.append(f"K: harness {name} has no result (build error or timeout of the whole run); see {log}")
            continue
        verdict, detail = classify(r)
        st = stats.get(name, {})
        solver_s = float(st.get("runtime_decision_procedure_s", 0) or 0)
        out.coverage["solver_s"] += solver_s
        nchecks = len(r.get("checks", []))
        out.coverage["evaluations"] += nchecks
        for c in r.get("checks", []):
            fn = c.get("function") or ""
            file = (c.get("location") or {}).get("file") or ""
            if file.startswith("/repo/") or fn.startswith(("opening_hours", "compact_calendar")):
                funcs.add(fn)
        sample = {"engine": "K", "harness": name, "verdict": verdict, "checks_decided": nchecks,
                  "wall_ms": r.get("duration_ms"), "solver_s": round(solver_s, 3),
                  "what": hs[name]["doc"][:400]}
        if detail:
            sample["detail"] = detail
        is_kf = "_kf_" in name
        if verdict == "pass":
            out.coverage["discharged"] += 1
            out.coverage["distinct_nontrivial"] += 1
        elif verdict == "fail":
            if is_kf and name in known:
                out.known.append(f"{known[name].get('what', name)} [K harness {name}: {detail}]")
                out.coverage["discharged"] += 1
                out.coverage["distinct_nontrivial"] += 1
                sample["verdict"] = "known-finding"
            else:
                ok, rpath, text = replay_counterexample(prop, name, hs[name], tier)
                sample["replay"] = text
                if ok:
                    out.violations.append((rpath, f"K harness {name}: {detail}; {text}"))
                else:
                    out.inconclusive.append(f"K harness {name} failed ({detail}) but {text}")
        elif verdict == "unwind":
            out.inconclusive.append(f"K harness {name}: unwinding bound too small ({detail})")
        elif verdict == "vacuous":
            out.inconclusive.append(f"K harness {name}: vacuity witness failed ({detail})")
        else:
            out.inconclusive.append(f"K harness {name}: {detail}; see {log}")
        out.coverage["samples"].append(sample)
    out.merge_list("functions_encoded", sorted(funcs))
