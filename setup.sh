#!/bin/sh
# Build the verification framework from files on disk only (offline).
set -e
cd "$(dirname "$0")"
export CARGO_NET_OFFLINE=true
mkdir -p .cache logs evidence replays
python3 lib/gen_cc.py >/dev/null
# Engine K: compile the harness crate once (dependencies are cached in the target dir).
(cd kani && cargo kani --target-dir ../.cache/kani-target/shared -Z unstable-options -Z stubbing --only-codegen >../logs/setup.kani.log 2>&1) || { tail -30 logs/setup.kani.log; exit 1; }
# Engine S: build runtime + twins and validate them (when present).
if [ -x lib/sym_setup.sh ]; then lib/sym_setup.sh; fi
echo setup ok
