//! Native playback of a C15 calendar counterexample: the real std type replaces the model.
pub use std::collections::VecDeque;
pub const CAP: usize = 6;

/// A real deque holding `items` whose ring buffer wraps after `split` elements
/// (`as_slices()` = (items[..split], items[split..])): the first part is pushed to the front of an
/// empty buffer (it lands at the end of the allocation), the rest to the back (it lands at the start).
pub fn deque_from_parts<T: Copy + Default>(items: &[T], split: usize) -> VecDeque<T> {
    let split = split.min(items.len());
    let mut d = VecDeque::with_capacity(items.len().max(1));
    for x in items[..split].iter().rev() {
        d.push_front(*x);
    }
    for x in &items[split..] {
        d.push_back(*x);
    }
    d
}
