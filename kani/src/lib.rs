#![allow(dead_code, unused_imports)]
#[cfg(kani)]
mod util;
#[cfg(kani)]
mod c01;
#[cfg(kani)]
mod c02;
#[cfg(kani)]
mod c04;
#[cfg(kani)]
mod c07;
#[cfg(kani)]
mod c08;
#[cfg(kani)]
mod c11;
#[cfg(kani)]
mod c15;
#[cfg(kani)]
mod c19;
#[cfg(kani)]
mod model_deque;
#[cfg(kani)]
mod gen_cc;
#[cfg(kani)]
mod c15cal;
