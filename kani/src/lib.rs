#![allow(dead_code, unused_imports)]
#[cfg(kani)]
mod c19;
