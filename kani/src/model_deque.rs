//! Bounded array-backed stand-in for `std::collections::VecDeque`, used ONLY for the calendar layer
//! of compact-calendar (C15): CBMC cannot get through std's ring buffer (DESIGN.md §2), so the
//! crate's own source is recompiled (src/gen_cc.rs, regenerated from /repo on every run) against
//! this model of the subset of the VecDeque API it uses. The model implements std's documented
//! contract (sequence semantics, lexicographic order); it is listed as a stub in the evidence.
//! Native playback of a counterexample swaps this file for `model_deque_real.rs` (the real std type).
use std::cmp::Ordering;
use std::hash::{Hash, Hasher};

pub const CAP: usize = 6;

#[derive(Clone)]
pub struct VecDeque<T> {
    items: [T; CAP],
    len: usize,
    /// where the ring buffer wraps: `as_slices()` = (items[..split], items[split..len]); std's contract
    /// allows any split, the harness chooses it symbolically when it builds a state
    split: usize,
}

impl<T: Default> Default for VecDeque<T> {
    fn default() -> Self {
        Self { items: std::array::from_fn(|_| T::default()), len: 0, split: 0 }
    }
}

impl<T> VecDeque<T> {
    pub fn len(&self) -> usize {
        self.len
    }

    pub fn is_empty(&self) -> bool {
        self.len == 0
    }

    // `get` / `get_mut` split on the index so that every returned reference has a concrete offset
    // (a reference at a symbolic offset makes every later access through it a byte-extract over the
    // whole array, which is what made symbolic execution crawl).
    pub fn get(&self, i: usize) -> Option<&T> {
        if i >= self.len {
            return None;
        }
        let mut k = 0;
        while k < CAP {
            if k == i {
                return Some(&self.items[k]);
            }
            k += 1;
        }
        None
    }

    pub fn get_mut(&mut self, i: usize) -> Option<&mut T> {
        if i >= self.len {
            return None;
        }
        if i == 0 {
            return Some(&mut self.items[0]);
        }
        if i == 1 {
            return Some(&mut self.items[1]);
        }
        if i == 2 {
            return Some(&mut self.items[2]);
        }
        if i == 3 {
            return Some(&mut self.items[3]);
        }
        if i == 4 {
            return Some(&mut self.items[4]);
        }
        Some(&mut self.items[CAP - 1])
    }

    pub fn push_back(&mut self, x: T) {
        assert!(self.len < CAP, "model deque capacity exceeded (bound of the harness)");
        self.items[self.len] = x;
        self.len += 1;
    }

    pub fn push_front(&mut self, x: T) {
        assert!(self.len < CAP, "model deque capacity exceeded (bound of the harness)");
        let mut i = self.len;
        while i > 0 {
            self.items.swap(i, i - 1);
            i -= 1;
        }
        self.items[0] = x;
        self.len += 1;
        self.split += 1;
    }

    pub fn as_slices(&self) -> (&[T], &[T]) {
        let s = if self.split < self.len { self.split } else { self.len };
        (&self.items[..s], &self.items[s..self.len])
    }

    pub fn back_mut(&mut self) -> Option<&mut T> {
        if self.len == 0 {
            None
        } else {
            self.get_mut(self.len - 1)
        }
    }

    pub fn front_mut(&mut self) -> Option<&mut T> {
        if self.len == 0 {
            None
        } else {
            Some(&mut self.items[0])
        }
    }

    pub fn iter(&self) -> Iter<'_, T> {
        Iter { d: self, i: 0, calls: 0 }
    }

    pub fn make_contiguous(&mut self) -> &mut [T] {
        &mut self.items[..self.len]
    }

    pub fn shrink_to_fit(&mut self) {}
}

/// A deque holding `items`, laid out so that `as_slices()` splits after `split` elements.
pub fn deque_from_parts<T: Copy + Default>(items: &[T], split: usize) -> VecDeque<T> {
    let mut d = VecDeque::default();
    for x in items {
        d.push_back(*x);
    }
    d.split = split;
    d
}

pub struct Iter<'a, T> {
    d: &'a VecDeque<T>,
    i: usize,
    /// number of `next` calls so far. It advances on every call whatever the (symbolic) position, so it
    /// stays concrete during symbolic execution: after len + 1 calls the iterator is certainly exhausted,
    /// which lets CBMC stop unrolling the caller's loop after len + 2 iterations instead of the unwind bound.
    calls: usize,
}

impl<'a, T> Iterator for Iter<'a, T> {
    type Item = &'a T;

    fn next(&mut self) -> Option<&'a T> {
        if self.calls > self.d.len {
            return None;
        }
        self.calls += 1;
        let r = self.d.get(self.i);
        if r.is_some() {
            self.i += 1;
        }
        r
    }

    // std's deque iterator also skips in O(1)
    fn nth(&mut self, n: usize) -> Option<&'a T> {
        self.i = if n < self.d.len - self.i { self.i + n } else { self.d.len };
        self.next()
    }
}

impl<'a, T> IntoIterator for &'a VecDeque<T> {
    type Item = &'a T;
    type IntoIter = Iter<'a, T>;

    fn into_iter(self) -> Iter<'a, T> {
        self.iter()
    }
}

impl<T: Default> FromIterator<T> for VecDeque<T> {
    fn from_iter<I: IntoIterator<Item = T>>(iter: I) -> Self {
        let mut d = Self::default();
        for x in iter {
            d.push_back(x);
        }
        d
    }
}

impl<T: PartialEq> PartialEq for VecDeque<T> {
    fn eq(&self, other: &Self) -> bool {
        if self.len != other.len {
            return false;
        }
        let mut i = 0;
        while i < self.len {
            if self.items[i] != other.items[i] {
                return false;
            }
            i += 1;
        }
        true
    }
}

impl<T: Eq> Eq for VecDeque<T> {}

impl<T: Ord> PartialOrd for VecDeque<T> {
    fn partial_cmp(&self, other: &Self) -> Option<Ordering> {
        Some(self.cmp(other))
    }
}

impl<T: Ord> Ord for VecDeque<T> {
    fn cmp(&self, other: &Self) -> Ordering {
        let mut i = 0;
        while i < self.len && i < other.len {
            match self.items[i].cmp(&other.items[i]) {
                Ordering::Equal => {}
                o => return o,
            }
            i += 1;
        }
        self.len.cmp(&other.len)
    }
}

impl<T: Hash> Hash for VecDeque<T> {
    fn hash<H: Hasher>(&self, h: &mut H) {
        self.len.hash(h);
        let mut i = 0;
        while i < self.len {
            self.items[i].hash(h);
            i += 1;
        }
    }
}
