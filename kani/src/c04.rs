//! C04 (K part) — totality of the selector kernels over FULL-WIDTH fields: any i64 day offset, any
//! chrono-representable date. The only assertions are Kani's own panic / overflow / unwrap checks.
use chrono::{Datelike, NaiveDate, Weekday};
use opening_hours::verif_hooks::date_filter::DateFilter;
use opening_hours::Context;
use opening_hours_syntax::rules::day::{DateOffset, HolidayKind, WeekDayOffset, WeekDayRange};

use crate::util::*;

fn any_chrono_date() -> NaiveDate {
    any_date_in(-262_000, 262_000)
}

/// `Mo[1] +999999999 days`: weekday range with any i64 day offset, any date.
#[kani::proof]
#[kani::unwind(1)]
#[kani::stub(opening_hours::utils::dates::count_days_in_month, crate::util::count_days_in_month_spec)]
fn c04_q_weekday_filter_any_offset() {
    let d = any_date_in(1900, 9999);
    let offset: i64 = kani::any();
    let a = any_weekday();
    let b = any_weekday();
    let sel = WeekDayRange::Fixed { range: a..=b, offset, nth_from_start: any_nth(), nth_from_end: any_nth() };
    let r = sel.filter(d, &Context::default());
    kani::cover!(r, "match reachable");
    kani::cover!(offset > 1_000_000_000_000, "huge offset reachable");
}

/// `PH +999999999 days`: holiday selector (filter and hint) with any i64 offset, empty calendar.
#[kani::proof]
#[kani::unwind(4)]
fn c04_q_holiday_any_offset() {
    let d = any_date_in(1900, 9999);
    let offset: i64 = kani::any();
    let sel = WeekDayRange::Holiday { kind: HolidayKind::Public, offset };
    let ctx = Context::default();
    let r = sel.filter(d, &ctx);
    let h = sel.next_change_hint(d, &ctx);
    kani::cover!(!r && h.is_some(), "end of harness reachable");
}

/// DateOffset::apply (`Jan 1 +Su +999999999 days`) with any i64 offset.
#[kani::proof]
fn c04_q_date_offset_apply_any() {
    let d = any_date_in(1900, 9999);
    let n: i64 = kani::any();
    let target = any_weekday();
    let mode: u8 = kani::any();
    kani::assume(mode < 3);
    let wday_offset = match mode {
        0 => WeekDayOffset::None,
        1 => WeekDayOffset::Next(target),
        _ => WeekDayOffset::Prev(target),
    };
    let got = DateOffset { wday_offset, day_offset: n }.apply(d);
    kani::cover!(got > d, "forward shift reachable");
    kani::cover!(n < -1_000_000_000_000, "huge negative offset reachable");
}

/// Selector filters never panic on dates far outside the supported range (year conversions).
#[kani::proof]
#[kani::unwind(1)]
#[kani::stub(opening_hours::utils::dates::count_days_in_month, crate::util::count_days_in_month_spec)]
fn c04_q_filters_any_date() {
    use opening_hours_syntax::rules::day::{MonthdayRange, WeekNum, WeekRange, Year, YearRange};
    let d = any_chrono_date();
    let ctx = Context::default();
    let y = YearRange { range: Year(1900)..=Year(9999), step: 3 };
    let _ = y.filter(d, &ctx);
    let _ = y.next_change_hint(d, &ctx);
    let w = WeekRange { range: WeekNum(10)..=WeekNum(20), step: 2 };
    let _ = w.filter(d, &ctx);
    let m = MonthdayRange::Month { range: month_from(11)..=month_from(2), year: None };
    let _ = m.filter(d, &ctx);
    let wd = WeekDayRange::Fixed { range: Weekday::Mon..=Weekday::Fri, offset: 0, nth_from_start: [true; 5], nth_from_end: [true; 5] };
    let _ = wd.filter(d, &ctx);
    kani::cover!(d.year() < 0, "negative year reachable");
    kani::cover!(d.year() > 100_000, "far future reachable");
}

/// `(sunset+12:00)-26:00`: the projection of a time span whose start is pushed past 24:00 by an event
/// offset: any event, any i16 offsets, any fixed end 00:00..=48:00, no location.
// NOT REGISTERED: the projection goes through Vec / ranges_union (container code), CBMC does not finish in 300 s;
// decided by engine S instead (c01 templates `one_eventfree_*`).
#[allow(dead_code)]
fn disabled_c04_q_timespan_any_offset() {
    use opening_hours::verif_hooks as vh;
    use opening_hours_syntax::rules::time::{Time, TimeEvent, TimeSelector, TimeSpan, VariableTime};
    use opening_hours_syntax::ExtendedTime;
    let ev = |k: u8| match k {
        0 => TimeEvent::Dawn,
        1 => TimeEvent::Sunrise,
        2 => TimeEvent::Sunset,
        _ => TimeEvent::Dusk,
    };
    let k1: u8 = kani::any();
    let k2: u8 = kani::any();
    kani::assume(k1 < 4 && k2 < 4);
    let o1: i16 = kani::any();
    let o2: i16 = kani::any();
    // offsets are written +-HH:MM with HH:MM a valid hour_minutes: |offset| <= 24:00
    kani::assume(-1440 <= o1 && o1 <= 1440 && -1440 <= o2 && o2 <= 1440);
    let end_mins: u16 = kani::any();
    kani::assume(end_mins <= 2880);
    let fixed_end: bool = kani::any();
    let end = if fixed_end { Time::Fixed(ExtendedTime::from_mins_from_midnight(end_mins).unwrap()) } else { Time::Variable(VariableTime { event: ev(k2), offset: o2 }) };
    let span = TimeSpan { range: Time::Variable(VariableTime { event: ev(k1), offset: o1 })..end, open_end: false, repeats: None };
    let sel = TimeSelector { time: vec![span] };
    let d = chrono::NaiveDate::from_ymd_opt(2024, 6, 12).unwrap();
    let today = vh::time_selector_intervals_at(&Context::default(), &sel, d);
    kani::cover!(today.len() == 1, "a projected range is reachable");
    kani::cover!(o1 > 600, "start pushed past 24:00 reachable");
    std::mem::forget(today);
    std::mem::forget(sel);
}


/// The month length used by the weekday selectors never panics and is the arithmetic month length on
/// EVERY chrono-representable date (a huge day offset moves the anchor of `Mo[1] -95006361 days` to the
/// last representable December); the weekday harnesses above replace it by that specification.
#[kani::proof]
fn c04_q_count_days_in_month_total() {
    let d = any_date_in(-262_143, 262_142);
    assert_eq!(opening_hours::verif_hooks::count_days_in_month(d), month_len(d.year(), d.month()));
    kani::cover!(d.year() % 400 == 0 && d.month() == 2, "February of a year divisible by 400 reachable");
    kani::cover!(d.year() == 262_142 && d.month() == 12, "last representable December reachable");
    kani::cover!(d.year() == -262_143 && d.month() == 1, "first representable January reachable");
}

/// `1900-9999/65535`: a year range with ANY step 1..=65535 and any bounds the parser accepts
/// (1900..=9999), any chrono date: filter and hint never panic (u16 arithmetic on the step), and a
/// hint lies strictly after the date it was asked for (the iterator relies on progress).
#[kani::proof]
#[kani::unwind(1)]
fn c04_q_year_any_step() {
    use opening_hours_syntax::rules::day::{Year, YearRange};
    let d = any_chrono_date();
    let a: u16 = kani::any();
    let b: u16 = kani::any();
    let step: u16 = kani::any();
    kani::assume(1900 <= a && a <= 9999 && 1900 <= b && b <= 9999 && step >= 1);
    let sel = YearRange { range: Year(a)..=Year(b), step };
    let ctx = Context::default();
    let _ = sel.filter(d, &ctx);
    let h = sel.next_change_hint(d, &ctx);
    if let Some(h) = h {
        assert!(h > d || d >= opening_hours::verif_hooks::DATE_END.date(), "a hint lies strictly after the date");
    }
    kani::cover!(step > 60_000 && a < b && d.year() > a as i32 && d.year() < b as i32, "huge step inside the range reachable");
    kani::cover!(h.is_none(), "wrapping range (no hint) reachable");
}
