//! Shared generators and arithmetic oracles for the Kani harnesses.
use chrono::{Datelike, NaiveDate, Weekday};
use opening_hours_syntax::rules::day::Month;

/// Any calendar day with `ymin <= year <= ymax`.
pub fn any_date_in(ymin: i32, ymax: i32) -> NaiveDate {
    let y: i32 = kani::any();
    let o: u32 = kani::any();
    kani::assume(ymin <= y && y <= ymax);
    kani::assume(1 <= o && o <= 366);
    let d = NaiveDate::from_yo_opt(y, o);
    kani::assume(d.is_some());
    d.unwrap()
}

/// Any day of the supported range 1900-01-01..=9999-12-31.
pub fn any_date() -> NaiveDate {
    any_date_in(1900, 9999)
}

pub fn weekday_from(n: u8) -> Weekday {
    match n {
        0 => Weekday::Mon,
        1 => Weekday::Tue,
        2 => Weekday::Wed,
        3 => Weekday::Thu,
        4 => Weekday::Fri,
        5 => Weekday::Sat,
        _ => Weekday::Sun,
    }
}

pub fn any_weekday() -> Weekday {
    let n: u8 = kani::any();
    kani::assume(n < 7);
    weekday_from(n)
}

pub fn month_from(n: u8) -> Month {
    match n {
        1 => Month::January,
        2 => Month::February,
        3 => Month::March,
        4 => Month::April,
        5 => Month::May,
        6 => Month::June,
        7 => Month::July,
        8 => Month::August,
        9 => Month::September,
        10 => Month::October,
        11 => Month::November,
        _ => Month::December,
    }
}

pub fn any_month() -> Month {
    let n: u8 = kani::any();
    kani::assume(1 <= n && n <= 12);
    month_from(n)
}

pub fn any_nth() -> [bool; 5] {
    [kani::any(), kani::any(), kani::any(), kani::any(), kani::any()]
}

pub fn is_leap(y: i32) -> bool {
    (y % 4 == 0 && y % 100 != 0) || y % 400 == 0
}

/// Arithmetic month length (specification of `count_days_in_month`).
pub fn month_len(y: i32, m: u32) -> u8 {
    match m {
        1 | 3 | 5 | 7 | 8 | 10 | 12 => 31,
        4 | 6 | 9 | 11 => 30,
        _ => {
            if is_leap(y) {
                29
            } else {
                28
            }
        }
    }
}

/// Stub for `opening_hours::utils::dates::count_days_in_month`, used only in harnesses that run
/// after `c01_q_count_days_in_month` established the equivalence over all supported dates.
pub fn count_days_in_month_spec(date: NaiveDate) -> u8 {
    month_len(date.year(), date.month())
}

/// `a..=b` with wrap-around when `a > b`.
pub fn wrapping_contains(a: u32, b: u32, x: u32) -> bool {
    if a <= b {
        a <= x && x <= b
    } else {
        x >= a || x <= b
    }
}
