//! C08 (K part) — before 1900-01-01 and from 10000-01-01 on every expression is closed: the daily
//! schedule is empty for EVERY chrono-representable date outside the supported range (years
//! -262000..262000), and non-empty for `24/7` inside it.
use chrono::{Datelike, NaiveDate};
use opening_hours::{Context, OpeningHours};
use opening_hours_syntax::rules::day::DaySelector;
use opening_hours_syntax::rules::time::TimeSelector;
use opening_hours_syntax::rules::{OpeningHoursExpression, RuleOperator, RuleSequence};
use opening_hours_syntax::RuleKind;

use crate::util::*;

fn always_open() -> OpeningHours {
    let rule = RuleSequence {
        day_selector: DaySelector::default(),
        time_selector: TimeSelector::default(),
        kind: RuleKind::Open,
        operator: RuleOperator::Normal,
        comments: Default::default(),
    };
    OpeningHours::verif_from_expression(OpeningHoursExpression { rules: vec![rule] }, Context::default())
}

// NOT REGISTERED: building an OpeningHours (Arc<expression>, Vec of rules) does not get through CBMC in 300 s;
// decided by engine S on windows in years far outside the range (c08 templates #5..#7).
#[allow(dead_code)]
fn disabled_c08_q_schedule_empty_outside_range() {
    let oh = always_open();
    let d = any_date_in(-262_000, 262_000);
    kani::assume(d.year() < 1900 || d.year() > 9999);
    assert!(oh.schedule_at(d).is_empty());
    kani::cover!(d.year() == 2024 - 65_536, "a year congruent to 2024 modulo 2^16 is reachable");
    kani::cover!(d.year() == 10_000, "the first year after the range is reachable");
    std::mem::forget(oh);
}
