//! C15 — CompactCalendar is a faithful set of dates, also across serialization.
use chrono::{Datelike, NaiveDate};
use compact_calendar::{CompactCalendar, CompactMonth, CompactYear};

fn bit(day: u32) -> u32 {
    1u32 << (day - 1)
}

fn any_day() -> u32 {
    let d: u32 = kani::any();
    kani::assume(1 <= d && d <= 31);
    d
}

fn any_month_num() -> u32 {
    let m: u32 = kani::any();
    kani::assume(1 <= m && m <= 12);
    m
}

/// A month holding an arbitrary subset of days 1..=31, built through deserialize (public API).
fn any_compact_month() -> (CompactMonth, u32) {
    let bits: u32 = kani::any();
    kani::assume(bits >> 31 == 0);
    let m = CompactMonth::deserialize(&bits.to_ne_bytes()[..]).unwrap();
    (m, bits)
}

/// CompactMonth: insert / contains / count / first / first_after agree with a 31-bit set model
/// for all 2^31 day sets and all days.
#[kani::proof]
#[kani::unwind(5)]
fn c15_q_month_ops() {
    let (mut m, bits) = any_compact_month();
    let d = any_day();
    assert_eq!(m.contains(d), bits & bit(d) != 0);
    assert_eq!(m.count(), bits.count_ones());
    assert_eq!(m.first(), if bits == 0 { None } else { Some(bits.trailing_zeros() + 1) });
    // first_after: least member strictly greater than d
    let above = if d == 31 { 0 } else { bits & !((1u32 << d) - 1) };
    assert_eq!(m.first_after(d), if above == 0 { None } else { Some(above.trailing_zeros() + 1) });
    // insert
    let was = bits & bit(d) != 0;
    assert_eq!(m.insert(d), !was);
    let mut buf = [0u8; 4];
    m.serialize(&mut buf[..]).unwrap();
    assert_eq!(u32::from_ne_bytes(buf), bits | bit(d));
    kani::cover!(was, "duplicate insert reachable");
    kani::cover!(d == 31 && !was, "day 31 reachable");
}

/// CompactMonth::iter yields exactly the members in increasing order (bound: sets of <= 4 days).
#[kani::proof]
#[kani::unwind(6)]
fn c15_q_month_iter() {
    let (m, bits) = any_compact_month();
    kani::assume(bits.count_ones() <= 4);
    let mut seen: u32 = 0;
    let mut last: u32 = 0;
    let mut n: u32 = 0;
    for day in m.iter() {
        assert!(day > last && day <= 31);
        assert!(bits & bit(day) != 0);
        seen |= bit(day);
        last = day;
        n += 1;
    }
    assert_eq!(seen, bits);
    assert_eq!(n, bits.count_ones());
    kani::cover!(n == 4, "four members reachable");
}

fn any_compact_year() -> (CompactYear, [u32; 12]) {
    let mut bits = [0u32; 12];
    let mut buf = [0u8; 48];
    let mut i = 0;
    while i < 12 {
        let b: u32 = kani::any();
        kani::assume(b >> 31 == 0);
        bits[i] = b;
        let bytes = b.to_ne_bytes();
        buf[4 * i] = bytes[0];
        buf[4 * i + 1] = bytes[1];
        buf[4 * i + 2] = bytes[2];
        buf[4 * i + 3] = bytes[3];
        i += 1;
    }
    (CompactYear::deserialize(&buf[..]).unwrap(), bits)
}

/// CompactYear: contains / insert / first / first_after / count against a 12 x 31 bit model for all
/// day sets, all (month, day) arguments.
#[kani::proof]
#[kani::unwind(14)]
fn c15_q_year_ops() {
    let (mut y, bits) = any_compact_year();
    let m = any_month_num();
    let d = any_day();
    let mi = (m - 1) as usize;
    assert_eq!(y.contains(m, d), bits[mi] & bit(d) != 0);
    // count
    let mut total = 0;
    let mut i = 0;
    while i < 12 {
        total += bits[i].count_ones();
        i += 1;
    }
    assert_eq!(y.count(), total);
    // first
    let mut first = None;
    let mut i = 12;
    while i > 0 {
        i -= 1;
        if bits[i] != 0 {
            first = Some((i as u32 + 1, bits[i].trailing_zeros() + 1));
        }
    }
    assert_eq!(y.first(), first);
    // first_after (m, d): strictly next member in (month, day) order
    let above = if d == 31 { 0 } else { bits[mi] & !((1u32 << d) - 1) };
    let mut want = None;
    let mut i = 12;
    while i > mi + 1 {
        i -= 1;
        if bits[i] != 0 {
            want = Some((i as u32 + 1, bits[i].trailing_zeros() + 1));
        }
    }
    if above != 0 {
        want = Some((m, above.trailing_zeros() + 1));
    }
    assert_eq!(y.first_after(m, d), want);
    // insert
    let was = bits[mi] & bit(d) != 0;
    assert_eq!(y.insert(m, d), !was);
    assert!(y.contains(m, d));
    assert_eq!(y.count(), total + if was { 0 } else { 1 });
    kani::cover!(m == 12 && d == 31, "Dec 31 reachable");
    kani::cover!(want.is_some() && above == 0, "first_after crosses a month boundary");
}

/// CompactYear serialize -> deserialize is the identity and consumes exactly 48 bytes.
#[kani::proof]
#[kani::unwind(14)]
fn c15_q_year_serde() {
    let (y, bits) = any_compact_year();
    let mut buf = [0u8; 52];
    {
        let mut w = &mut buf[..];
        y.serialize(&mut w).unwrap();
        assert_eq!(w.len(), 4); // exactly 48 bytes written
    }
    let mut r = &buf[..];
    let y2 = CompactYear::deserialize(&mut r).unwrap();
    assert_eq!(r.len(), 4); // exactly 48 bytes consumed
    assert!(y2 == y);
    let mut i = 0;
    while i < 12 {
        let b = u32::from_ne_bytes([buf[4 * i], buf[4 * i + 1], buf[4 * i + 2], buf[4 * i + 3]]);
        assert_eq!(b, bits[i]);
        i += 1;
    }
    kani::cover!(true, "end of harness reachable");
}
