//! C15 — CompactCalendar is a faithful set of dates, also across serialization.
use chrono::{Datelike, NaiveDate};
use compact_calendar::{CompactCalendar, CompactMonth, CompactYear};

fn bit(day: u32) -> u32 {
    1u32 << (day - 1)
}

fn any_day() -> u32 {
    let d: u32 = kani::any();
    kani::assume(1 <= d && d <= 31);
    d
}

fn any_month_num() -> u32 {
    let m: u32 = kani::any();
    kani::assume(1 <= m && m <= 12);
    m
}

/// A month holding an arbitrary subset of days 1..=31, built through deserialize (public API).
fn any_compact_month() -> (CompactMonth, u32) {
    let bits: u32 = kani::any();
    kani::assume(bits >> 31 == 0);
    let m = CompactMonth::deserialize(&bits.to_ne_bytes()[..]).unwrap();
    (m, bits)
}

/// CompactMonth: insert / contains / count / first / first_after agree with a 31-bit set model
/// for all 2^31 day sets and all days.
#[kani::proof]
#[kani::unwind(5)]
fn c15_q_month_ops() {
    let (mut m, bits) = any_compact_month();
    let d = any_day();
    assert_eq!(m.contains(d), bits & bit(d) != 0);
    assert_eq!(m.count(), bits.count_ones());
    assert_eq!(m.first(), if bits == 0 { None } else { Some(bits.trailing_zeros() + 1) });
    // first_after: least member strictly greater than d
    let above = if d == 31 { 0 } else { bits & !((1u32 << d) - 1) };
    assert_eq!(m.first_after(d), if above == 0 { None } else { Some(above.trailing_zeros() + 1) });
    // insert
    let was = bits & bit(d) != 0;
    assert_eq!(m.insert(d), !was);
    let mut buf = [0u8; 4];
    m.serialize(&mut buf[..]).unwrap();
    assert_eq!(u32::from_ne_bytes(buf), bits | bit(d));
    kani::cover!(was, "duplicate insert reachable");
    kani::cover!(d == 31 && !was, "day 31 reachable");
}

/// CompactMonth::iter yields exactly the members in increasing order (bound: sets of <= 4 days).
#[kani::proof]
#[kani::unwind(6)]
fn c15_q_month_iter() {
    let (m, bits) = any_compact_month();
    kani::assume(bits.count_ones() <= 4);
    let mut seen: u32 = 0;
    let mut last: u32 = 0;
    let mut n: u32 = 0;
    for day in m.iter() {
        assert!(day > last && day <= 31);
        assert!(bits & bit(day) != 0);
        seen |= bit(day);
        last = day;
        n += 1;
    }
    assert_eq!(seen, bits);
    assert_eq!(n, bits.count_ones());
    kani::cover!(n == 4, "four members reachable");
}

fn any_compact_year() -> (CompactYear, [u32; 12]) {
    let mut bits = [0u32; 12];
    let mut buf = [0u8; 48];
    let mut i = 0;
    while i < 12 {
        let b: u32 = kani::any();
        kani::assume(b >> 31 == 0);
        bits[i] = b;
        let bytes = b.to_ne_bytes();
        buf[4 * i] = bytes[0];
        buf[4 * i + 1] = bytes[1];
        buf[4 * i + 2] = bytes[2];
        buf[4 * i + 3] = bytes[3];
        i += 1;
    }
    (CompactYear::deserialize(&buf[..]).unwrap(), bits)
}

/// CompactYear: contains / insert / first / first_after / count against a 12 x 31 bit model for all
/// day sets, all (month, day) arguments.
#[kani::proof]
#[kani::unwind(14)]
fn c15_q_year_ops() {
    let (mut y, bits) = any_compact_year();
    let m = any_month_num();
    let d = any_day();
    let mi = (m - 1) as usize;
    assert_eq!(y.contains(m, d), bits[mi] & bit(d) != 0);
    // count
    let mut total = 0;
    let mut i = 0;
    while i < 12 {
        total += bits[i].count_ones();
        i += 1;
    }
    assert_eq!(y.count(), total);
    // first
    let mut first = None;
    let mut i = 12;
    while i > 0 {
        i -= 1;
        if bits[i] != 0 {
            first = Some((i as u32 + 1, bits[i].trailing_zeros() + 1));
        }
    }
    assert_eq!(y.first(), first);
    // first_after (m, d): strictly next member in (month, day) order
    let above = if d == 31 { 0 } else { bits[mi] & !((1u32 << d) - 1) };
    let mut want = None;
    let mut i = 12;
    while i > mi + 1 {
        i -= 1;
        if bits[i] != 0 {
            want = Some((i as u32 + 1, bits[i].trailing_zeros() + 1));
        }
    }
    if above != 0 {
        want = Some((m, above.trailing_zeros() + 1));
    }
    assert_eq!(y.first_after(m, d), want);
    // insert
    let was = bits[mi] & bit(d) != 0;
    assert_eq!(y.insert(m, d), !was);
    assert!(y.contains(m, d));
    assert_eq!(y.count(), total + if was { 0 } else { 1 });
    kani::cover!(m == 12 && d == 31, "Dec 31 reachable");
    kani::cover!(want.is_some() && above == 0, "first_after crosses a month boundary");
}

/// CompactYear serialize -> deserialize is the identity and consumes exactly 48 bytes.
#[kani::proof]
#[kani::unwind(14)]
fn c15_q_year_serde() {
    let (y, bits) = any_compact_year();
    let mut buf = [0u8; 52];
    {
        let mut w = &mut buf[..];
        y.serialize(&mut w).unwrap();
        assert_eq!(w.len(), 4); // exactly 48 bytes written
    }
    let mut r = &buf[..];
    let y2 = CompactYear::deserialize(&mut r).unwrap();
    assert_eq!(r.len(), 4); // exactly 48 bytes consumed
    assert!(y2 == y);
    let mut i = 0;
    while i < 12 {
        let b = u32::from_ne_bytes([buf[4 * i], buf[4 * i + 1], buf[4 * i + 2], buf[4 * i + 3]]);
        assert_eq!(b, bits[i]);
        i += 1;
    }
    kani::cover!(true, "end of harness reachable");
}

// ---------------------------------------------------------------------------------------------
// (NOT REGISTERED: CBMC runs out of memory at 35 GB / 45 min on both harnesses below, kept for reference)
// CompactCalendar: one step from an ARBITRARY stored state (any first year, any day sets), built
// through deserialize. Induction over insertion histories: every calendar reachable by insertions is
// a (first_year, window of years) state; the queries are checked on every such state of window
// length N, and one insert from every such state leads to the state the set model predicts.
// ---------------------------------------------------------------------------------------------

const N: usize = 3; // stored years (window length), concrete bound

fn any_calendar() -> (CompactCalendar, i32, [[u32; 12]; N]) {
    let first_year: i32 = kani::any();
    kani::assume(-4000 <= first_year && first_year <= 9000);
    let mut bits = [[0u32; 12]; N];
    let mut buf = [0u8; 4 + 8 + N * 48];
    let fy = first_year.to_ne_bytes();
    buf[0] = fy[0];
    buf[1] = fy[1];
    buf[2] = fy[2];
    buf[3] = fy[3];
    let len = N.to_ne_bytes();
    let mut i = 0;
    while i < 8 {
        buf[4 + i] = len[i];
        i += 1;
    }
    let mut y = 0;
    while y < N {
        let mut m = 0;
        while m < 12 {
            let b: u32 = kani::any();
            kani::assume(b >> 31 == 0);
            bits[y][m] = b;
            let bytes = b.to_ne_bytes();
            let off = 12 + y * 48 + m * 4;
            buf[off] = bytes[0];
            buf[off + 1] = bytes[1];
            buf[off + 2] = bytes[2];
            buf[off + 3] = bytes[3];
            m += 1;
        }
        y += 1;
    }
    // a window grown by insertions has members in its first and in its last year
    (CompactCalendar::deserialize(&buf[..]).unwrap(), first_year, bits)
}

fn model_contains(first_year: i32, bits: &[[u32; 12]; N], y: i32, m: u32, d: u32) -> bool {
    let idx = y - first_year;
    0 <= idx && (idx as usize) < N && bits[idx as usize][(m - 1) as usize] & bit(d) != 0
}

fn any_ymd(lo: i32, hi: i32) -> (i32, u32, u32, NaiveDate) {
    let y: i32 = kani::any();
    kani::assume(lo <= y && y <= hi);
    let m: u32 = kani::any();
    let d: u32 = kani::any();
    kani::assume(1 <= m && m <= 12 && 1 <= d && d <= 31);
    let date = NaiveDate::from_ymd_opt(y, m, d);
    kani::assume(date.is_some());
    (y, m, d, date.unwrap())
}

/// contains / count / first_after on every stored state of 3 years, query date in first_year-2 ..= first_year+4.
#[allow(dead_code)]
fn disabled_c15_t_calendar_queries_any_state() {
    let (cal, fy, bits) = any_calendar();
    let (qy, qm, qd, q) = any_ymd(fy - 2, fy + 4);
    assert_eq!(cal.contains(q), model_contains(fy, &bits, qy, qm, qd));
    let mut total = 0u32;
    let mut y = 0;
    while y < N {
        let mut m = 0;
        while m < 12 {
            total += bits[y][m].count_ones();
            m += 1;
        }
        y += 1;
    }
    assert_eq!(cal.count(), total);
    // first_after: least member strictly greater than q (scan the model backwards)
    let mut want: Option<(i32, u32, u32)> = None;
    let mut y = N;
    while y > 0 {
        y -= 1;
        let year = fy + y as i32;
        let mut m = 12;
        while m > 0 {
            m -= 1;
            let month = m as u32 + 1;
            let b = bits[y][m];
            let cand = if year > qy || (year == qy && month > qm) {
                b
            } else if year == qy && month == qm && qd < 31 {
                b & !((1u32 << qd) - 1)
            } else {
                0
            };
            if cand != 0 {
                want = Some((year, month, cand.trailing_zeros() + 1));
            }
        }
    }
    // only existing dates can have been inserted
    let got = cal.first_after(q);
    match want {
        Some((y, m, d)) => {
            if let Some(w) = NaiveDate::from_ymd_opt(y, m, d) {
                assert_eq!(got, Some(w));
            }
        }
        None => assert_eq!(got, None),
    }
    kani::cover!(want.is_some() && want.unwrap().0 > qy + 1, "first_after skips an empty year");
    kani::cover!(qy < fy && want.is_some(), "query before the window");
    std::mem::forget(cal);
}

/// One insert from every stored state of 3 years, inserted year in first_year-2 ..= first_year+4:
/// the return value tells whether the date was new and afterwards the calendar holds exactly the
/// old members and the new date (window growth in both directions).
#[allow(dead_code)]
fn disabled_c15_t_calendar_insert_any_state() {
    let (mut cal, fy, bits) = any_calendar();
    let (iy, im, id, ins) = any_ymd(fy - 2, fy + 4);
    let (qy, qm, qd, q) = any_ymd(fy - 3, fy + 5);
    let was = model_contains(fy, &bits, iy, im, id);
    assert_eq!(cal.insert(ins), !was);
    let want = model_contains(fy, &bits, qy, qm, qd) || (qy == iy && qm == im && qd == id);
    assert_eq!(cal.contains(q), want);
    kani::cover!(iy < fy, "growth towards earlier years");
    kani::cover!(iy >= fy + N as i32, "growth towards later years");
    kani::cover!(was, "duplicate insertion");
    std::mem::forget(cal);
}
