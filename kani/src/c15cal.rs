//! C15, calendar layer — `CompactCalendar` (first_year + deque of years) against a set-of-dates model.
//!
//! The functions under test are compact-calendar's own source, regenerated from /repo on every run
//! (`gen_cc.rs`, see /verif/lib/gen_cc.py) and compiled against a bounded model of
//! `std::collections::VecDeque` (`model_deque.rs`): std's ring buffer is what exhausts CBMC, the
//! calendar's own code (year index arithmetic, window growth, cross-year search, framing) is scalar.
//!
//! Induction over insertion histories: every calendar reachable by insertions is a state
//! (first_year, 1..=N stored years, first and last year non-empty, every stored bit an existing date);
//! queries are decided on every such state, and one insert from every such state is shown to lead to
//! the state the set model predicts, again satisfying the invariant. N = 3 stored years (a middle year
//! that may be empty), insertions up to 3 years outside the window at either end.
use chrono::{Datelike, NaiveDate};

use crate::gen_cc::{CompactCalendar, CompactYear};

const N: usize = 3;
const GROW: i32 = 3;

fn bit(day: u32) -> u32 {
    1u32 << (day - 1)
}

fn month_len(leap: bool, m: u32) -> u32 {
    match m {
        4 | 6 | 9 | 11 => 30,
        2 => {
            if leap {
                29
            } else {
                28
            }
        }
        _ => 31,
    }
}

/// A stored year holding an arbitrary set of EXISTING dates of a (leap / common) year (only those can be inserted).
/// The bitmap layout (bit d-1 of month m = day d) is the one the month / year harnesses of c15.rs
/// decide against the public API, deserialize included.
fn any_year_of(leap: bool) -> (CompactYear, [u32; 12]) {
    let mut bits = [0u32; 12];
    let mut i = 0;
    while i < 12 {
        let b: u32 = kani::any();
        let len = month_len(leap, i as u32 + 1);
        kani::assume(b >> len == 0);
        bits[i] = b;
        i += 1;
    }
    (CompactYear::verif_from_bits(bits), bits)
}

fn nonempty(b: &[u32; 12]) -> bool {
    let mut i = 0;
    let mut any = false;
    while i < 12 {
        any |= b[i] != 0;
        i += 1;
    }
    any
}

struct Model {
    fy: i32,
    len: usize,
    bits: [[u32; 12]; N],
    years: [CompactYear; N],
}

impl Model {
    fn contains(&self, y: i32, m: u32, d: u32) -> bool {
        let idx = y as i64 - self.fy as i64;
        0 <= idx && (idx as usize) < self.len && self.bits[idx as usize][(m - 1) as usize] & bit(d) != 0
    }

    fn month_bits(&self, y: i32, m: usize) -> u32 {
        let idx = y as i64 - self.fy as i64;
        if 0 <= idx && (idx as usize) < self.len {
            self.bits[idx as usize][m]
        } else {
            0
        }
    }

    /// Number of members, summed through the year layer (`CompactYear::count` is decided against a
    /// population count for all day sets by `c15_q_year_ops`; re-deriving 36 population counts here
    /// would only make the SAT instance an adder-equivalence problem).
    fn count(&self) -> u32 {
        let mut total = 0u32;
        let mut y = 0;
        while y < N {
            if y < self.len {
                total += self.years[y].count();
            }
            y += 1;
        }
        total
    }

    /// least member strictly greater than (qy, qm, qd)
    fn first_after(&self, qy: i32, qm: u32, qd: u32) -> Option<(i32, u32, u32)> {
        let mut want: Option<(i32, u32, u32)> = None;
        let mut y = N;
        while y > 0 {
            y -= 1;
            if y >= self.len {
                continue;
            }
            let year = self.fy + y as i32;
            let mut m = 12;
            while m > 0 {
                m -= 1;
                let month = m as u32 + 1;
                let b = self.bits[y][m];
                let cand = if year > qy || (year == qy && month > qm) {
                    b
                } else if year == qy && month == qm && qd < 31 {
                    b & !((1u32 << qd) - 1)
                } else {
                    0
                };
                if cand != 0 {
                    want = Some((year, month, cand.trailing_zeros() + 1));
                }
            }
        }
        want
    }
}

/// Any first year -261_600..=261_999 with the leap flags of the N years from it. The year is built as
/// 400 * k + off so that the leap rule is computed on a 9-bit number (a 32-bit `%` by a constant per
/// stored year is what dominated the SAT instance).
fn any_first_year() -> (i32, [bool; N]) {
    let k: i16 = kani::any();
    kani::assume(-654 <= k && k <= 654); // every year touched stays inside chrono's range
    let off: u16 = kani::any();
    kani::assume(off < 400);
    let fy = k as i32 * 400 + off as i32;
    let mut leap = [false; N];
    let mut i = 0;
    while i < N {
        let o = (off + i as u16) % 400;
        leap[i] = o % 4 == 0 && (o % 100 != 0 || o == 0);
        i += 1;
    }
    (fy, leap)
}

/// Any reachable calendar state of exactly LEN stored years (one harness per LEN in 1..=N).
fn any_calendar<const LEN: usize>() -> (CompactCalendar, Model) {
    let (fy, leap) = any_first_year();
    let mut years = [CompactYear::default(); N];
    let mut bits = [[0u32; 12]; N];
    let mut i = 0;
    while i < LEN {
        let (y, b) = any_year_of(leap[i]);
        years[i] = y;
        bits[i] = b;
        i += 1;
    }
    // window grown by insertions: members in its first and in its last year
    kani::assume(nonempty(&bits[0]) && nonempty(&bits[LEN - 1]));
    // where std's ring buffer wraps (any position: a window grown towards the past is not contiguous)
    let split: usize = kani::any();
    kani::assume(split <= LEN);
    (CompactCalendar::verif_from_parts(fy, &years[..LEN], split), Model { fy, len: LEN, bits, years })
}

fn any_ymd(lo: i32, hi: i32) -> (i32, u32, u32, NaiveDate) {
    let y: i32 = kani::any();
    kani::assume(lo <= y && y <= hi);
    let m: u32 = kani::any();
    let d: u32 = kani::any();
    kani::assume(1 <= m && m <= 12 && 1 <= d && d <= 31);
    let date = NaiveDate::from_ymd_opt(y, m, d);
    kani::assume(date.is_some());
    (y, m, d, date.unwrap())
}

fn contains_count<const LEN: usize>() {
    let (cal, model) = any_calendar::<LEN>();
    let (qy, qm, qd, q) = any_ymd(-262_100, 262_100);
    assert_eq!(cal.contains(q), model.contains(qy, qm, qd));
    assert_eq!(cal.count(), model.count());
    kani::cover!(qy < model.fy, "query before the window");
    kani::cover!(qy >= model.fy + LEN as i32, "query after the window");
    kani::cover!(cal.contains(q) && qy == model.fy + LEN as i32 - 1, "member of the last stored year");
}

/// contains and count on every reachable state of 3 stored years (the middle one possibly empty),
/// any first year, query date ANYWHERE in chrono's range (far before / after the window, negative years).
#[kani::proof]
#[kani::unwind(14)]
fn c15_q_cal_contains_count_3() {
    contains_count::<3>()
}

/// Same on every reachable state of 2 stored years.
#[kani::proof]
#[kani::unwind(14)]
fn c15_t_cal_contains_count_2() {
    contains_count::<2>()
}

/// Same on every reachable state of 1 stored year.
#[kani::proof]
#[kani::unwind(14)]
fn c15_q_cal_contains_count_1() {
    contains_count::<1>()
}

/// (y, m, d) strictly before (y2, m2, d2) in calendar order
fn before(a: (i32, u32, u32), b: (i32, u32, u32)) -> bool {
    a.0 < b.0 || (a.0 == b.0 && (a.1 < b.1 || (a.1 == b.1 && a.2 < b.2)))
}

/// Set-theoretic specification of `first_after`, with a universally quantified witness x (symbolic):
/// a returned date r is a member, lies strictly after q, and no member x lies in (q, r); when nothing
/// is returned no member x lies after q.
fn first_after<const LEN: usize>(before_window: bool) -> (Option<NaiveDate>, i32, u32, i32) {
    let (cal, model) = any_calendar::<LEN>();
    let (qy, qm, qd, q) = any_ymd(-262_100, 262_100);
    // the query before the window takes a different path (`iter().next()`), decided by its own harnesses
    kani::assume((qy < model.fy) == before_window);
    // witness: any (year, month, day) triple (members are triples with a set bit)
    let xy: i32 = kani::any();
    let xm: u32 = kani::any();
    let xd: u32 = kani::any();
    kani::assume(1 <= xm && xm <= 12 && 1 <= xd && xd <= 31);
    let x_member = model.contains(xy, xm, xd);
    let got = cal.first_after(q);
    match got {
        Some(r) => {
            let rt = (r.year(), r.month(), r.day());
            assert!(before((qy, qm, qd), rt));
            assert!(model.contains(rt.0, rt.1, rt.2));
            assert!(!(x_member && before((qy, qm, qd), (xy, xm, xd)) && before((xy, xm, xd), rt)));
        }
        None => assert!(!(x_member && before((qy, qm, qd), (xy, xm, xd)))),
    }
    (got, qy, qm, model.fy)
}

fn covers_in_window<const LEN: usize>(r: (Option<NaiveDate>, i32, u32, i32)) {
    let (got, qy, qm, fy) = r;
    kani::cover!(got.is_some() && got.unwrap().year() == qy && got.unwrap().month() > qm, "next member in a later month of the same year");
    kani::cover!(got.is_none() && qy == fy + LEN as i32 - 1, "no later member");
    kani::cover!(got.is_some() && got.unwrap().year() == fy + LEN as i32 - 1 && qy == fy, "next member in the last stored year");
    kani::cover!(qy > fy + LEN as i32, "query far after the window");
}

/// first_after(q) is the least member strictly greater than q (set-theoretic specification), for every
/// reachable state of 3 stored years (the middle one possibly empty) and a query date anywhere from
/// the first stored year to the end of chrono's range.
#[kani::proof]
#[kani::unwind(14)]
fn c15_q_cal_first_after_3() {
    covers_in_window::<3>(first_after::<3>(false))
}

/// Same on every reachable state of 2 stored years.
#[kani::proof]
#[kani::unwind(14)]
fn c15_t_cal_first_after_2() {
    covers_in_window::<2>(first_after::<2>(false))
}

/// Same on every reachable state of 1 stored year.
#[kani::proof]
#[kani::unwind(14)]
fn c15_t_cal_first_after_1() {
    covers_in_window::<1>(first_after::<1>(false))
}

/// first_after(q) for a query date anywhere BEFORE the first stored year (the path through
/// `iter().next()`), every reachable state of 2 stored years.
#[kani::proof]
#[kani::unwind(14)]
fn c15_q_cal_first_after_before_2() {
    let (got, qy, _, fy) = first_after::<2>(true);
    kani::cover!(qy < fy - 1 && got.is_some(), "query far before the window");
}

/// Same, every reachable state of 3 stored years.
// NOT REGISTERED: not shown to finish within the time limit in this sandbox (kept for reference)
#[allow(dead_code)]
fn disabled_c15_t_cal_first_after_before_3() {
    let (got, qy, _, fy) = first_after::<3>(true);
    kani::cover!(qy < fy - 1 && got.is_some(), "query far before the window");
}

fn insert<const LEN: usize>() {
    let (mut cal, model) = any_calendar::<LEN>();
    let (iy, im, id, ins) = any_ymd(model.fy - GROW, model.fy + LEN as i32 - 1 + GROW);
    let was = model.contains(iy, im, id);
    assert_eq!(cal.insert(ins), !was);
    // window = [min year, max year]
    let last = model.fy + LEN as i32 - 1;
    let new_first = if iy < model.fy { iy } else { model.fy };
    let new_last = if iy > last { iy } else { last };
    assert_eq!(cal.verif_first_year(), new_first);
    let new_len = (new_last - new_first + 1) as usize;
    assert_eq!(cal.verif_len(), new_len);
    // content: every stored month (symbolic position) holds the old members plus the new date
    let j: usize = kani::any();
    let m: usize = kani::any();
    kani::assume(j < new_len && m < 12);
    let year = new_first + j as i32;
    let mut want = model.month_bits(year, m);
    if year == iy && m as u32 + 1 == im {
        want |= bit(id);
    }
    assert_eq!(cal.verif_month_bits(j, m), want);
    // hence: first and last stored year are not empty (reachable-state invariant again)
    assert!(cal.verif_year(0).unwrap().first().is_some());
    assert!(cal.verif_year(new_len - 1).unwrap().first().is_some());
    // and the public view agrees at any date
    let (qy, qm, qd, q) = any_ymd(-262_100, 262_100);
    assert_eq!(cal.contains(q), model.contains(qy, qm, qd) || (qy == iy && qm == im && qd == id));
    kani::cover!(iy == model.fy - GROW, "growth by 3 years towards earlier years");
    kani::cover!(iy == last + GROW, "growth by 3 years towards later years");
    kani::cover!(was, "duplicate insertion");
    kani::cover!(!was && model.fy <= iy && iy <= last, "new date inside the window");
}

/// One insert from every reachable state of 3 stored years, inserted year up to 3 years before /
/// after the window: the return value tells whether the date was new; afterwards the calendar holds
/// exactly the old members and the new date (decided at a symbolic query date anywhere), the window
/// is [min year, max year] and the reachable-state invariant holds again (induction step).
#[kani::proof]
#[kani::unwind(14)]
fn c15_q_cal_insert_3() {
    insert::<3>()
}

/// Same from every reachable state of 2 stored years.
#[kani::proof]
#[kani::unwind(14)]
fn c15_t_cal_insert_2() {
    insert::<2>()
}

/// Same from every reachable state of 1 stored year.
#[kani::proof]
#[kani::unwind(14)]
fn c15_q_cal_insert_1() {
    insert::<1>()
}

/// Insertion into the empty calendar (any date of chrono's range): the base case of the induction.
#[kani::proof]
#[kani::unwind(14)]
fn c15_t_cal_insert_empty() {
    let mut cal = CompactCalendar::default();
    let (iy, im, id, ins) = any_ymd(-262_000, 262_000);
    let (qy, qm, qd, q) = any_ymd(-262_100, 262_100);
    assert!(!cal.contains(q));
    assert_eq!(cal.first_after(q), None);
    assert_eq!(cal.count(), 0);
    assert!(cal.insert(ins));
    assert_eq!(cal.contains(q), qy == iy && qm == im && qd == id);
    assert_eq!(cal.count(), 1);
    assert_eq!(cal.verif_first_year(), iy);
    assert_eq!(cal.verif_len(), 1);
    assert!(!cal.insert(ins));
    assert_eq!(cal.count(), 1);
    let after = cal.first_after(q);
    assert_eq!(after.is_some(), q < ins);
    if let Some(a) = after {
        assert_eq!(a, ins);
    }
    kani::cover!(iy < 0, "negative year");
    kani::cover!(q < ins, "query before the only member");
}

fn iter_ordered<const LEN: usize>() {
    let (cal, model) = any_calendar::<LEN>();
    kani::assume(model.count() <= 3);
    let (qy, qm, qd, q) = any_ymd(model.fy - 1, model.fy + N as i32);
    let mut n = 0u32;
    let mut last: Option<NaiveDate> = None;
    let mut seen_q = false;
    for date in cal.iter() {
        assert!(n < 3);
        if let Some(l) = last {
            assert!(l < date);
        }
        assert!(model.contains(date.year(), date.month(), date.day()));
        seen_q |= date == q;
        last = Some(date);
        n += 1;
    }
    assert_eq!(n, model.count());
    assert_eq!(seen_q, model.contains(qy, qm, qd));
    kani::cover!(n == 3, "three members");
}

/// Ordered iteration: `iter()` yields exactly the members in strictly increasing order
/// (bound: calendars of at most 3 members over 3 stored years).
// NOT REGISTERED: not shown to finish within the time limit in this sandbox (kept for reference)
#[allow(dead_code)]
fn disabled_c15_t_cal_iter_3() {
    iter_ordered::<3>()
}

/// Same over 2 stored years.
// NOT REGISTERED: not shown to finish within the time limit in this sandbox (kept for reference)
#[allow(dead_code)]
fn disabled_c15_t_cal_iter_2() {
    iter_ordered::<2>()
}

/// Equality is set equality on reachable states: two calendars of 1..=2 stored years each, first
/// years at most 2 apart, compare equal iff they hold the same dates.
fn eq_sets<const LA: usize, const LB: usize>() -> bool {
    let (a, ma) = any_calendar::<LA>();
    let (b, mb) = any_calendar::<LB>();
    kani::assume(mb.fy >= ma.fy - 2 && mb.fy <= ma.fy + 2);
    let mut same = true;
    let mut k = -2i32;
    while k <= 3 {
        let mut m = 0;
        while m < 12 {
            same &= ma.month_bits(ma.fy + k, m) == mb.month_bits(ma.fy + k, m);
            m += 1;
        }
        k += 1;
    }
    assert_eq!(a == b, same);
    same
}

/// Equality is set equality: two reachable calendars of 2 stored years each, first years at most 2 apart.
#[kani::proof]
#[kani::unwind(14)]
fn c15_q_cal_eq_2_2() {
    let same = eq_sets::<2, 2>();
    kani::cover!(same, "equal sets reachable");
    kani::cover!(!same, "different sets reachable");
}

/// Equality is set equality: reachable calendars of 1 and 2 stored years (never equal: windows differ).
#[kani::proof]
#[kani::unwind(14)]
fn c15_q_cal_eq_1_2() {
    let same = eq_sets::<1, 2>();
    kani::cover!(!same, "different windows");
}

/// serialize -> deserialize returns an equal calendar and consumes exactly the bytes written, with
/// trailing bytes of the stream left untouched (calendars can be concatenated in one stream).
// NOT REGISTERED: not shown to finish within the time limit in this sandbox (kept for reference)
#[allow(dead_code)]
fn disabled_c15_t_cal_serde() {
    const LEN: usize = 2;
    let (cal, model) = any_calendar::<LEN>();
    let mut buf = [0u8; 4 + 8 + LEN * 48 + 4];
    let total = buf.len();
    let written;
    {
        let mut w = &mut buf[..];
        cal.serialize(&mut w).unwrap();
        written = total - w.len();
    }
    assert_eq!(written, 4 + 8 + LEN * 48);
    let mut r = &buf[..];
    let back = CompactCalendar::deserialize(&mut r).unwrap();
    assert_eq!(total - r.len(), written);
    assert!(back == cal);
    assert_eq!(back.verif_first_year(), model.fy);
    assert_eq!(back.verif_len(), LEN);
    kani::cover!(true, "end of harness reachable");
}
