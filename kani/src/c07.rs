//! C07 (K part) — the conversion of day selectors to the canonical (exclusive, non-wrapping) ranges of
//! the normalization paving and back denotes the same set of years / months / weeks / weekdays, for
//! every range (wrapping ones included). This is the inclusive <-> exclusive conversion and the
//! wrapping-range split of normalize/frame.rs and normalize/canonical.rs, through the real
//! `MakeCanonical::try_from_iterator` / `into_selector` pipeline (hook: canonical_roundtrip_*).
use chrono::Weekday;
use opening_hours_syntax::rules::day::{Month, MonthdayRange, WeekDayRange, WeekNum, WeekRange, Year, YearRange};
use opening_hours_syntax::verif_hooks as sh;

use crate::util::*;

/// Week ranges: every (a, b) in 1..=53 x 1..=53, every week w.
#[kani::proof]
#[kani::unwind(4)]
fn c07_q_week_roundtrip() {
    let a: u8 = kani::any();
    let b: u8 = kani::any();
    let w: u8 = kani::any();
    kani::assume(1 <= a && a <= 53 && 1 <= b && b <= 53 && 1 <= w && w <= 53);
    let remove_full: bool = kani::any();
    let sel = [WeekRange { range: WeekNum(a)..=WeekNum(b), step: 1 }];
    let out = sh::canonical_roundtrip_weeks(&sel, remove_full);
    assert!(out.is_some());
    let out = out.unwrap();
    let want = wrapping_contains(a as u32, b as u32, w as u32);
    let mut got = out.is_empty(); // no week selector left = every week
    let mut i = 0;
    while i < out.len() {
        let (x, y) = (*out[i].range.start(), *out[i].range.end());
        assert!(out[i].step == 1);
        assert!(1 <= x.0 && x.0 <= 53 && 1 <= y.0 && y.0 <= 53);
        if wrapping_contains(x.0 as u32, y.0 as u32, w as u32) {
            got = true;
        }
        i += 1;
    }
    assert_eq!(got, want || (out.is_empty() && remove_full));
    if out.is_empty() {
        // a selector is dropped only when it covers every week
        assert!(remove_full && (a == 1 && b == 53 || (a > b && a as u32 == b as u32 + 1)));
    }
    kani::cover!(a > b && want, "wrapping range reachable");
    kani::cover!(b == 52, "range ending at week 52 reachable");
    std::mem::forget(out);
}

/// Month ranges: every (a, b) in 1..=12 x 1..=12.
#[kani::proof]
#[kani::unwind(4)]
fn c07_q_month_roundtrip() {
    let a: u8 = kani::any();
    let b: u8 = kani::any();
    let m: u8 = kani::any();
    kani::assume(1 <= a && a <= 12 && 1 <= b && b <= 12 && 1 <= m && m <= 12);
    let sel = [MonthdayRange::Month { range: month_from(a)..=month_from(b), year: None }];
    let out = sh::canonical_roundtrip_months(&sel, true).unwrap();
    let want = wrapping_contains(a as u32, b as u32, m as u32);
    let mut got = out.is_empty();
    let mut i = 0;
    while i < out.len() {
        match &out[i] {
            MonthdayRange::Month { range, year: None } => {
                if wrapping_contains(*range.start() as u32, *range.end() as u32, m as u32) {
                    got = true;
                }
            }
            _ => assert!(false, "only plain month ranges come back"),
        }
        i += 1;
    }
    assert_eq!(got, want || out.is_empty());
    if out.is_empty() {
        assert!((a == 1 && b == 12) || (a > b && a == b + 1));
    }
    kani::cover!(a > b && want, "wrapping range reachable");
    kani::cover!(b == 12, "range ending in December reachable");
    std::mem::forget(out);
}

/// Weekday ranges: every (a, b) in Mo..Su x Mo..Su.
#[kani::proof]
#[kani::unwind(7)]
fn c07_q_weekday_roundtrip() {
    let a = any_weekday();
    let b = any_weekday();
    let d = any_weekday();
    let sel = [WeekDayRange::Fixed { range: a..=b, offset: 0, nth_from_start: [true; 5], nth_from_end: [true; 5] }];
    let out = sh::canonical_roundtrip_weekdays(&sel, true).unwrap();
    let n = |w: Weekday| w.num_days_from_monday();
    let want = wrapping_contains(n(a), n(b), n(d));
    let mut got = out.is_empty();
    let mut i = 0;
    while i < out.len() {
        match &out[i] {
            WeekDayRange::Fixed { range, offset: 0, nth_from_start, nth_from_end } => {
                assert!(*nth_from_start == [true; 5] && *nth_from_end == [true; 5]);
                if wrapping_contains(n(*range.start()), n(*range.end()), n(d)) {
                    got = true;
                }
            }
            _ => assert!(false, "only plain weekday ranges come back"),
        }
        i += 1;
    }
    assert_eq!(got, want || out.is_empty());
    if out.is_empty() {
        assert!((n(a) == 0 && n(b) == 6) || (n(a) > n(b) && n(a) == n(b) + 1));
    }
    kani::cover!(n(a) > n(b) && want, "wrapping range reachable");
    kani::cover!(n(b) == 6, "range ending on Sunday reachable");
    std::mem::forget(out);
}

/// Year ranges a <= b in 1900..=9999 (wrapping year ranges: semantics undocumented, excluded).
#[kani::proof]
#[kani::unwind(4)]
fn c07_q_year_roundtrip() {
    let a: u16 = kani::any();
    let b: u16 = kani::any();
    let y: u16 = kani::any();
    kani::assume(1900 <= a && a <= b && b <= 9999 && 1900 <= y && y <= 9999);
    let sel = [YearRange { range: Year(a)..=Year(b), step: 1 }];
    let out = sh::canonical_roundtrip_years(&sel, true).unwrap();
    let want = a <= y && y <= b;
    let mut got = out.is_empty();
    let mut i = 0;
    while i < out.len() {
        assert!(out[i].step == 1);
        if out[i].range.start().0 <= y && y <= out[i].range.end().0 {
            got = true;
        }
        i += 1;
    }
    assert_eq!(got, want || out.is_empty());
    if out.is_empty() {
        assert!(a == 1900 && b == 9999);
    }
    kani::cover!(b == 9999 && !out.is_empty(), "range ending in 9999 reachable");
    std::mem::forget(out);
}

/// Selectors that cannot be expressed as plain ranges are refused (passed through unchanged by
/// normalize): stepped weeks / years, months with a year, weekdays with a day offset or an nth filter.
#[kani::proof]
#[kani::unwind(7)]
fn c07_q_non_canonical_refused() {
    assert!(sh::canonical_roundtrip_weeks(&[WeekRange { range: WeekNum(1)..=WeekNum(10), step: 2 }], true).is_none());
    assert!(sh::canonical_roundtrip_years(&[YearRange { range: Year(2000)..=Year(2010), step: 3 }], true).is_none());
    assert!(sh::canonical_roundtrip_months(&[MonthdayRange::Month { range: Month::January..=Month::March, year: Some(2020) }], true).is_none());
    assert!(sh::canonical_roundtrip_weekdays(
        &[WeekDayRange::Fixed { range: Weekday::Mon..=Weekday::Tue, offset: 1, nth_from_start: [true; 5], nth_from_end: [true; 5] }],
        true
    )
    .is_none());
    assert!(sh::canonical_roundtrip_weekdays(
        &[WeekDayRange::Fixed { range: Weekday::Mon..=Weekday::Tue, offset: 0, nth_from_start: [true, false, true, true, true], nth_from_end: [true; 5] }],
        true
    )
    .is_none());
    kani::cover!(true, "end of harness reachable");
}
