//! C01 (K part) — every day selector matches exactly the days the documented semantics define,
//! for all dates 1900..=9999 and all selector field values.
use chrono::{Datelike, Duration, NaiveDate, Weekday};
use compact_calendar::CompactCalendar;
use opening_hours::verif_hooks as vh;
use opening_hours::verif_hooks::date_filter::DateFilter;
use opening_hours::{Context, ContextHolidays};
use opening_hours_syntax::rules::day::{
    Date, DateOffset, DaySelector, HolidayKind, Month, MonthdayRange, WeekDayOffset, WeekDayRange, WeekNum, WeekRange, Year, YearRange,
};
use std::sync::Arc;

use crate::util::*;

/// count_days_in_month == arithmetic month length, all dates 1900..=9999 (justifies the stub used by
/// the weekday harnesses).
#[kani::proof]
fn c01_q_count_days_in_month() {
    let d = any_date();
    assert_eq!(vh::count_days_in_month(d), month_len(d.year(), d.month()));
    kani::cover!(d.month() == 2 && d.day() == 29, "leap day reachable");
    kani::cover!(d.year() == 9999 && d.month() == 12, "last supported month reachable");
}

/// Easter: for every year 1900..=9999 the computed date exists, is a Sunday and lies in
/// Mar 22 ..= Apr 25.
#[kani::proof]
fn c01_q_easter_is_a_sunday_in_range() {
    let y: i32 = kani::any();
    kani::assume(1900 <= y && y <= 9999);
    let e = vh::easter(y);
    assert!(e.is_some());
    let e = e.unwrap();
    assert_eq!(e.year(), y);
    assert_eq!(e.weekday(), Weekday::Sun);
    assert!((e.month() == 3 && e.day() >= 22) || (e.month() == 4 && e.day() <= 25));
    kani::cover!(e.month() == 3, "March Easter reachable");
    kani::cover!(e.month() == 4 && e.day() == 25, "latest Easter reachable");
}

/// Year range a..=b / step (a <= b): matches iff a <= y <= b and (y - a) mod step == 0.
#[kani::proof]
fn c01_q_year_filter() {
    let d = any_date();
    let a: u16 = kani::any();
    let b: u16 = kani::any();
    let step: u16 = kani::any();
    kani::assume(1900 <= a && a <= b && b <= 9999);
    kani::assume(step >= 1);
    let sel = YearRange { range: Year(a)..=Year(b), step };
    let y = d.year() as u16;
    let want = a <= y && y <= b && (y - a) % step == 0;
    assert_eq!(sel.filter(d, &Context::default()), want);
    kani::cover!(want && step > 1 && y != a, "stepped match reachable");
    kani::cover!(!want && a <= y && y <= b, "step mismatch reachable");
}

/// Week range (ISO week numbers): a..=b / step for a <= b, wrapping a > b with step 1.
#[kani::proof]
fn c01_q_week_filter() {
    let d = any_date();
    let a: u8 = kani::any();
    let b: u8 = kani::any();
    let step: u8 = kani::any();
    kani::assume(1 <= a && a <= 53 && 1 <= b && b <= 53);
    kani::assume(step >= 1);
    kani::assume(a <= b || step == 1); // wrapping ranges with a step: semantics undocumented
    let sel = WeekRange { range: WeekNum(a)..=WeekNum(b), step };
    let w = d.iso_week().week() as u8;
    let want = if a <= b { a <= w && w <= b && (w - a) % step == 0 } else { w >= a || w <= b };
    assert_eq!(sel.filter(d, &Context::default()), want);
    kani::cover!(w == 53 && want, "week 53 match reachable");
    kani::cover!(a > b && want && w <= b, "wrapped match reachable");
}

/// Month range (wrapping), optional year: matches iff the month lies in the range and the year, if
/// given, is the date's year.
#[kani::proof]
fn c01_q_month_filter() {
    let d = any_date();
    let a: u8 = kani::any();
    let b: u8 = kani::any();
    kani::assume(1 <= a && a <= 12 && 1 <= b && b <= 12);
    let has_year: bool = kani::any();
    let y: u16 = kani::any();
    kani::assume(1900 <= y && y <= 9999);
    kani::assume(!has_year || a <= b); // wrapping month range with a year: semantics undocumented
    let sel = MonthdayRange::Month { range: month_from(a)..=month_from(b), year: if has_year { Some(y) } else { None } };
    let m = d.month();
    let want = wrapping_contains(a as u32, b as u32, m) && (!has_year || y as i32 == d.year());
    assert_eq!(sel.filter(d, &Context::default()), want);
    kani::cover!(a > b && want, "wrapping match reachable");
    kani::cover!(has_year && want, "match with year reachable");
}

fn weekday_oracle(d: NaiveDate, a: Weekday, b: Weekday, nth_s: [bool; 5], nth_e: [bool; 5]) -> bool {
    let wd = d.weekday().num_days_from_monday();
    let in_range = wrapping_contains(a.num_days_from_monday(), b.num_days_from_monday(), wd);
    let day = d.day();
    let len = month_len(d.year(), d.month()) as u32;
    // n-th occurrence of this weekday in its month, counted from the start and from the end
    let from_start = ((day - 1) / 7) as usize;
    let from_end = ((len - day) / 7) as usize;
    in_range && (nth_s[from_start] || nth_e[from_end])
}

fn weekday_filter_harness(lo: i64, hi: i64) {
    let d = any_date_in(1901, 9998);
    let a = any_weekday();
    let b = any_weekday();
    let nth_s = any_nth();
    let nth_e = any_nth();
    let offset: i64 = kani::any();
    kani::assume(lo <= offset && offset <= hi);
    let sel = WeekDayRange::Fixed { range: a..=b, offset, nth_from_start: nth_s, nth_from_end: nth_e };
    // `Mo[1] +2 days` matches the day that is 2 days after a first Monday
    let base = d - Duration::days(offset);
    let want = weekday_oracle(base, a, b, nth_s, nth_e);
    assert_eq!(sel.filter(d, &Context::default()), want);
    kani::cover!(want && a.num_days_from_monday() > b.num_days_from_monday(), "wrapping weekday match reachable");
    kani::cover!(want && !nth_s[0] && !nth_s[1] && !nth_s[2] && !nth_s[3] && !nth_s[4], "match through nth-from-end only reachable");
}

/// Weekday range (wrapping) with nth-from-start / nth-from-end masks (all 2^10), no day offset.
#[kani::proof]
#[kani::unwind(1)]
#[kani::stub(opening_hours::utils::dates::count_days_in_month, crate::util::count_days_in_month_spec)]
fn c01_q_weekday_filter() {
    weekday_filter_harness(0, 0);
}

/// Same with a symbolic day offset of one day either way (an nth-from-end position then depends on
/// the length of the neighbouring month).
#[kani::proof]
#[kani::unwind(1)]
#[kani::stub(opening_hours::utils::dates::count_days_in_month, crate::util::count_days_in_month_spec)]
fn c01_q_weekday_filter_offset1() {
    weekday_filter_harness(-1, 1);
}

/// Same with a symbolic day offset in -3..=3.
#[kani::proof]
#[kani::unwind(1)]
#[kani::stub(opening_hours::utils::dates::count_days_in_month, crate::util::count_days_in_month_spec)]
fn c01_t_weekday_filter_offset3() {
    weekday_filter_harness(-3, 3);
}

/// Same with a symbolic day offset of one or two weeks / a month (windows around +-7, +-31).
#[kani::proof]
#[kani::unwind(1)]
#[kani::stub(opening_hours::utils::dates::count_days_in_month, crate::util::count_days_in_month_spec)]
fn c01_t_weekday_filter_offset_week() {
    let k: i64 = kani::any();
    kani::assume(k == -31 || k == -7 || k == 7 || k == 31);
    weekday_filter_harness_fixed(k);
}

fn weekday_filter_harness_fixed(offset: i64) {
    let d = any_date_in(1901, 9998);
    let a = any_weekday();
    let b = any_weekday();
    let nth_s = any_nth();
    let nth_e = any_nth();
    let sel = WeekDayRange::Fixed { range: a..=b, offset, nth_from_start: nth_s, nth_from_end: nth_e };
    let base = d - Duration::days(offset);
    let want = weekday_oracle(base, a, b, nth_s, nth_e);
    assert_eq!(sel.filter(d, &Context::default()), want);
    kani::cover!(want, "match reachable");
}

fn calendar_with(d1: NaiveDate, d2: NaiveDate) -> Arc<CompactCalendar> {
    let mut cal = CompactCalendar::default();
    cal.insert(d1);
    cal.insert(d2);
    Arc::new(cal)
}

fn md_in_year(y: i32) -> NaiveDate {
    let o: u32 = kani::any();
    kani::assume(1 <= o && o <= 366);
    let d = NaiveDate::from_yo_opt(y, o);
    kani::assume(d.is_some());
    d.unwrap()
}

/// PH / SH with offset: decided solely by the calendar attached to the context (two symbolic
/// holidays in 2024 / 2025, query date 2023..=2026, offset -2..=2).
#[kani::proof]
#[kani::unwind(4)]
fn c01_q_holiday_filter() {
    let h1 = md_in_year(2024);
    let h2 = md_in_year(2025);
    let d = any_date_in(2023, 2026);
    let offset: i64 = kani::any();
    kani::assume(-2 <= offset && offset <= 2);
    let public: bool = kani::any();
    let cal = calendar_with(h1, h2);
    let holidays = if public { ContextHolidays::new(cal, Default::default()) } else { ContextHolidays::new(Default::default(), cal) };
    let ctx = Context::default().with_holidays(holidays);
    let base = d - Duration::days(offset);
    let want = base == h1 || base == h2;
    let sel = WeekDayRange::Holiday { kind: if public { HolidayKind::Public } else { HolidayKind::School }, offset };
    assert_eq!(sel.filter(d, &ctx), want);
    // the other calendar is never consulted
    let other = WeekDayRange::Holiday { kind: if public { HolidayKind::School } else { HolidayKind::Public }, offset };
    assert!(!other.filter(d, &ctx));
    kani::cover!(want && offset != 0, "holiday match with offset reachable");
}

/// DaySelector = conjunction of the four selector groups (all four present).
#[allow(dead_code)]
fn disabled_c01_q_day_selector_conjunction() {
    let d = any_date_in(2020, 2030);
    let y: u16 = kani::any();
    kani::assume(2019 <= y && y <= 2031);
    let m: u8 = kani::any();
    kani::assume(1 <= m && m <= 12);
    let w: u8 = kani::any();
    kani::assume(1 <= w && w <= 53);
    let wd = any_weekday();
    let ds = DaySelector {
        year: vec![YearRange { range: Year(y)..=Year(y), step: 1 }],
        monthday: vec![MonthdayRange::Month { range: month_from(m)..=month_from(m), year: None }],
        week: vec![WeekRange { range: WeekNum(w)..=WeekNum(w), step: 1 }],
        weekday: vec![WeekDayRange::Fixed { range: wd..=wd, offset: 0, nth_from_start: [true; 5], nth_from_end: [true; 5] }],
    };
    let want = d.year() == y as i32 && d.month() == m as u32 && d.iso_week().week() == w as u32 && d.weekday() == wd;
    assert_eq!(ds.filter(d, &Context::default()), want);
    assert!(!ds.is_empty());
    kani::cover!(want, "match of all four groups reachable");
    std::mem::forget(ds);
}

/// An empty group places no constraint: a selector with only a month group / only a weekday group.
#[allow(dead_code)]
fn disabled_c01_q_day_selector_empty_groups() {
    let d = any_date_in(2020, 2030);
    let m: u8 = kani::any();
    kani::assume(1 <= m && m <= 12);
    let wd = any_weekday();
    let only_month = DaySelector { monthday: vec![MonthdayRange::Month { range: month_from(m)..=month_from(m), year: None }], ..Default::default() };
    assert_eq!(only_month.filter(d, &Context::default()), d.month() == m as u32);
    let only_wd = DaySelector {
        weekday: vec![WeekDayRange::Fixed { range: wd..=wd, offset: 0, nth_from_start: [true; 5], nth_from_end: [true; 5] }],
        ..Default::default()
    };
    assert_eq!(only_wd.filter(d, &Context::default()), d.weekday() == wd);
    let none = DaySelector::default();
    assert!(none.filter(d, &Context::default()) && none.is_empty());
    kani::cover!(true, "end of harness reachable");
    std::mem::forget(only_month);
    std::mem::forget(only_wd);
}

/// A group with two alternatives is their disjunction (year group).
#[kani::proof]
#[kani::unwind(3)]
fn c01_q_group_disjunction() {
    let d = any_date_in(2020, 2030);
    let y1: u16 = kani::any();
    let y2: u16 = kani::any();
    kani::assume(2019 <= y1 && y1 <= 2031 && 2019 <= y2 && y2 <= 2031);
    let mut ds = DaySelector::default();
    ds.year.push(YearRange { range: Year(y1)..=Year(y1), step: 1 });
    ds.year.push(YearRange { range: Year(y2)..=Year(y2), step: 1 });
    let want = d.year() == y1 as i32 || d.year() == y2 as i32;
    assert_eq!(ds.filter(d, &Context::default()), want);
    kani::cover!(want && y1 != y2 && d.year() == y2 as i32, "second alternative reachable");
    std::mem::forget(ds);
}

// ---------------------------------------------------------------------------------------------
// Dated ranges, layer by layer
// ---------------------------------------------------------------------------------------------

/// valid_ymd_before / valid_ymd_after clamp a day number beyond the month length to the last day of
/// the month / the first day of the next month (all years, months, days 1..=31).
#[kani::proof]
#[kani::unwind(5)]
fn c01_q_valid_ymd_clamp() {
    let y: i32 = kani::any();
    kani::assume(1899 <= y && y <= 10_000);
    let m: u32 = kani::any();
    kani::assume(1 <= m && m <= 12);
    let day: u32 = kani::any();
    kani::assume(1 <= day && day <= 31);
    let len = month_len(y, m) as u32;
    let before = vh::date_filter::valid_ymd_before(y, m, day);
    let after = vh::date_filter::valid_ymd_after(y, m, day);
    if day <= len {
        assert_eq!(before, NaiveDate::from_ymd_opt(y, m, day).unwrap());
        assert_eq!(after, before);
    } else {
        assert_eq!(before, NaiveDate::from_ymd_opt(y, m, len).unwrap());
        assert_eq!(after, NaiveDate::from_ymd_opt(y, m, len).unwrap().succ_opt().unwrap());
    }
    kani::cover!(day > len && m == 2, "February overflow reachable");
}

/// DateOffset::apply = shift by n days, then move to the next / previous given weekday (0..=6 days).
fn date_offset_apply(n: i64) {
    let d = any_date_in(1901, 9998);
    let target = any_weekday();
    let mode: u8 = kani::any();
    kani::assume(mode < 3);
    let wday_offset = match mode {
        0 => WeekDayOffset::None,
        1 => WeekDayOffset::Next(target),
        _ => WeekDayOffset::Prev(target),
    };
    let got = DateOffset { wday_offset, day_offset: n }.apply(d);
    let shifted = d + Duration::days(n);
    let delta = (got - shifted).num_days();
    match mode {
        0 => assert_eq!(delta, 0),
        1 => assert!(0 <= delta && delta <= 6 && got.weekday() == target),
        _ => assert!(-6 <= delta && delta <= 0 && got.weekday() == target),
    }
    kani::cover!(mode == 1 && delta == 6, "six days forward reachable");
    kani::cover!(mode == 2 && delta == 0, "already on the target weekday reachable");
}

#[kani::proof]
fn c01_q_date_offset_apply_0() {
    date_offset_apply(0);
}

#[kani::proof]
fn c01_q_date_offset_apply_plus1() {
    date_offset_apply(1);
}

#[kani::proof]
fn c01_t_date_offset_apply_minus2() {
    date_offset_apply(-2);
}

#[kani::proof]
fn c01_t_date_offset_apply_plus40() {
    date_offset_apply(40);
}

/// Only the order of the dates matters to the pairing logic: days of one (leap) year suffice.
fn any_ordered_date(_lo: i32, _hi: i32) -> NaiveDate {
    let o: u32 = kani::any();
    kani::assume(1 <= o && o <= 366);
    NaiveDate::from_yo_opt(2004, o).unwrap()
}

/// Pairing of range bounds: with starts s1 < s2 and ends e1 < e2 (arrays instead of lazy chains),
/// a date is inside iff it lies in [s, first end >= s] for some start s, where a start that falls
/// inside an already open interval does not open a new one.
#[allow(dead_code)]
fn disabled_c01_q_bounds_pairing() {
    let d = any_ordered_date(2000, 2003);
    let s1 = any_ordered_date(2000, 2003);
    let s2 = any_ordered_date(2000, 2003);
    let e1 = any_ordered_date(2000, 2003);
    let e2 = any_ordered_date(2000, 2003);
    kani::assume(s1 < s2 && e1 < e2);
    // every start has an end not before it and every end has a start not after it
    kani::assume(s1 <= e1 && s2 <= e2);
    let got = vh::date_filter::is_open_from_bounds(d, [s1, s2], [e1, e2]);
    let end_of = |s: NaiveDate| if e1 >= s { e1 } else { e2 };
    let want = (s1 <= d && d <= end_of(s1)) || (s2 <= d && d <= end_of(s2));
    assert_eq!(got, want);
    kani::cover!(want && s2 <= e1, "nested start reachable");
    kani::cover!(!want && d > e1 && d < s2, "gap between intervals reachable");
}

/// Dated range `Mon d1 - Mon d2` without year and without offsets, month/day of both end points
/// taken from a boundary family, query date symbolic over all years: inside iff the date lies
/// between an occurrence of the start and the first occurrence of the end not before it.
fn monthday_glue(m1: u8, d1: u8, m2: u8, d2: u8) {
    let date = any_date_in(2019, 2025);
    let sel = MonthdayRange::Date {
        start: (Date::md(d1, month_from(m1)), DateOffset::default()),
        end: (Date::md(d2, month_from(m2)), DateOffset::default()),
    };
    let got = sel.filter(date, &Context::default());
    // (month, day) key of the query date and of both bounds, days beyond the month length clamp:
    // a start to the first day of the next month, an end to the last day of its month
    let y = date.year();
    let key = |m: u32, d: u32| m * 32 + d;
    let k = key(date.month(), date.day());
    let start_k = {
        let len = month_len(y, m1 as u32) as u32;
        if (d1 as u32) <= len { key(m1 as u32, d1 as u32) } else { key(m1 as u32 + 1, 1) }
    };
    let end_k = {
        let len = month_len(y, m2 as u32) as u32;
        key(m2 as u32, std::cmp::min(d2 as u32, len))
    };
    let want = if start_k <= end_k { start_k <= k && k <= end_k } else { k >= start_k || k <= end_k };
    assert_eq!(got, want);
    kani::cover!(got, "match reachable");
    kani::cover!(!got, "non-match reachable");
}

#[allow(dead_code)]
fn disabled_c01_q_monthday_mar28_apr16() {
    monthday_glue(3, 28, 4, 16);
}

#[allow(dead_code)]
fn disabled_c01_q_monthday_dec24_jan06() {
    monthday_glue(12, 24, 1, 6);
}

#[allow(dead_code)]
fn disabled_c01_q_monthday_jan01_dec31() {
    monthday_glue(1, 1, 12, 31);
}

#[allow(dead_code)]
fn disabled_c01_t_monthday_feb01_feb29() {
    monthday_glue(2, 1, 2, 29);
}

#[allow(dead_code)]
fn disabled_c01_t_monthday_jan15_jan15() {
    monthday_glue(1, 15, 1, 15);
}


/// Dated range `Mon d1 - Mon d2` (no year, no offsets) with *symbolic* month/day of both end points
/// and a symbolic query day inside one concrete year (partition: the year is concrete per harness).
fn monthday_sym_endpoints(year: i32) {
    let o: u32 = kani::any();
    kani::assume(1 <= o && o <= 366);
    let date = NaiveDate::from_yo_opt(year, o);
    kani::assume(date.is_some());
    let date = date.unwrap();
    let m1: u8 = kani::any();
    let m2: u8 = kani::any();
    let d1: u8 = kani::any();
    let d2: u8 = kani::any();
    kani::assume(1 <= m1 && m1 <= 12 && 1 <= m2 && m2 <= 12 && 1 <= d1 && d1 <= 31 && 1 <= d2 && d2 <= 31);
    // day numbers that exist in no year for that month are rejected by the grammar only above 31;
    // `Apr 31`, `Feb 30` parse, the documented clamping applies (checked separately below)
    kani::assume(d1 <= month_len(2020, m1 as u32) && d2 <= month_len(2020, m2 as u32));
    kani::assume(!(m1 == 2 && d1 == 29) && !(m2 == 2 && d2 == 29)); // Feb 29 handled by its own harness
    let sel = MonthdayRange::Date {
        start: (Date::md(d1, month_from(m1)), DateOffset::default()),
        end: (Date::md(d2, month_from(m2)), DateOffset::default()),
    };
    let got = sel.filter(date, &Context::default());
    let key = |m: u32, d: u32| m * 32 + d;
    let k = key(date.month(), date.day());
    let (start_k, end_k) = (key(m1 as u32, d1 as u32), key(m2 as u32, d2 as u32));
    let want = if start_k <= end_k { start_k <= k && k <= end_k } else { k >= start_k || k <= end_k };
    assert_eq!(got, want);
    kani::cover!(got && start_k > end_k, "wrapping match reachable");
    kani::cover!(!got, "non-match reachable");
}

#[allow(dead_code)]
fn disabled_c01_q_monthday_sym_2021() {
    monthday_sym_endpoints(2021);
}

#[allow(dead_code)]
fn disabled_c01_t_monthday_sym_2020() {
    monthday_sym_endpoints(2020);
}


/// Probe: everything concrete except the day of the year.
fn monthday_concrete(year: i32, m1: u8, d1: u8, m2: u8, d2: u8) {
    let o: u32 = kani::any();
    kani::assume(1 <= o && o <= 366);
    let date = NaiveDate::from_yo_opt(year, o);
    kani::assume(date.is_some());
    let date = date.unwrap();
    let sel = MonthdayRange::Date {
        start: (Date::md(d1, month_from(m1)), DateOffset::default()),
        end: (Date::md(d2, month_from(m2)), DateOffset::default()),
    };
    let got = sel.filter(date, &Context::default());
    let key = |m: u32, d: u32| m * 32 + d;
    let k = key(date.month(), date.day());
    let (start_k, end_k) = (key(m1 as u32, d1 as u32), key(m2 as u32, d2 as u32));
    let want = if start_k <= end_k { start_k <= k && k <= end_k } else { k >= start_k || k <= end_k };
    assert_eq!(got, want);
    kani::cover!(got, "match reachable");
    kani::cover!(!got, "non-match reachable");
}

#[allow(dead_code)]
fn disabled_c01_t_probe_concrete() {
    monthday_concrete(2021, 3, 28, 4, 16);
}
