//! C19 — ExtendedTime is a faithful 00:00..48:00 minute counter (complete over u8 x u8 x i16).
use opening_hours_syntax::ExtendedTime;

fn any_time() -> ExtendedTime {
    let h: u8 = kani::any();
    let m: u8 = kani::any();
    let t = ExtendedTime::new(h, m);
    kani::assume(t.is_some());
    t.unwrap()
}

#[kani::proof]
fn c19_q_new_range() {
    let h: u8 = kani::any();
    let m: u8 = kani::any();
    let t = ExtendedTime::new(h, m);
    let total = (h as u32) * 60 + (m as u32);
    let valid = m < 60 && total <= 48 * 60;
    assert_eq!(t.is_some(), valid);
    if let Some(t) = t {
        assert_eq!(t.hour(), h);
        assert_eq!(t.minute(), m);
        assert_eq!(t.mins_from_midnight() as u32, total);
    }
    kani::cover!(true, "end of harness reachable");
}

#[kani::proof]
fn c19_q_mins_roundtrip() {
    let n: u16 = kani::any();
    let t = ExtendedTime::from_mins_from_midnight(n);
    assert_eq!(t.is_some(), n <= 2880);
    if let Some(t) = t {
        assert_eq!(t.mins_from_midnight(), n);
        assert!(t.minute() < 60);
    }
    let u = any_time();
    assert_eq!(ExtendedTime::from_mins_from_midnight(u.mins_from_midnight()), Some(u));
    kani::cover!(true, "end of harness reachable");
}

#[kani::proof]
fn c19_q_order_is_minute_order() {
    let a = any_time();
    let b = any_time();
    let (ma, mb) = (a.mins_from_midnight(), b.mins_from_midnight());
    assert_eq!(a.cmp(&b), ma.cmp(&mb));
    assert_eq!(a == b, ma == mb);
    assert_eq!(a < b, ma < mb);
    assert_eq!(a <= b, ma <= mb);
    assert_eq!(a.partial_cmp(&b), Some(ma.cmp(&mb)));
    assert_eq!(std::cmp::max(a, b).mins_from_midnight(), std::cmp::max(ma, mb));
    assert_eq!(std::cmp::min(a, b).mins_from_midnight(), std::cmp::min(ma, mb));
    kani::cover!(true, "end of harness reachable");
}

#[kani::proof]
fn c19_q_add_minutes() {
    let a = any_time();
    let d: i16 = kani::any();
    let want = a.mins_from_midnight() as i32 + d as i32;
    let got = a.add_minutes(d);
    assert_eq!(got.is_some(), (0..=2880).contains(&want));
    if let Some(g) = got {
        assert_eq!(g.mins_from_midnight() as i32, want);
    }
    kani::cover!(true, "end of harness reachable");
}

#[kani::proof]
fn c19_q_add_hours() {
    let a = any_time();
    let d: i8 = kani::any();
    let want = a.mins_from_midnight() as i32 + 60 * d as i32;
    let got = a.add_hours(d);
    assert_eq!(got.is_some(), (0..=2880).contains(&want));
    if let Some(g) = got {
        assert_eq!(g.mins_from_midnight() as i32, want);
    }
    kani::cover!(true, "end of harness reachable");
}

#[kani::proof]
fn c19_q_constants() {
    assert_eq!(ExtendedTime::MIDNIGHT_00.mins_from_midnight(), 0);
    assert_eq!(ExtendedTime::MIDNIGHT_24.mins_from_midnight(), 1440);
    assert_eq!(ExtendedTime::MIDNIGHT_48.mins_from_midnight(), 2880);
    kani::cover!(true, "end of harness reachable");
}

#[kani::proof]
fn c19_q_naive_time_conversions() {
    use chrono::{NaiveTime, Timelike};
    use std::convert::TryInto;
    let a = any_time();
    let r: Result<NaiveTime, ()> = a.try_into();
    assert_eq!(r.is_ok(), a.mins_from_midnight() < 1440);
    if let Ok(t) = r {
        assert_eq!(t.num_seconds_from_midnight(), 60 * a.mins_from_midnight() as u32);
        assert_eq!(t.nanosecond(), 0);
        assert_eq!(ExtendedTime::from(t), a);
    }
    // From<NaiveTime> truncates seconds and keeps hour/minute
    let secs: u32 = kani::any();
    kani::assume(secs < 86_400);
    let nano: u32 = kani::any();
    kani::assume(nano < 2_000_000_000);
    if let Some(t) = NaiveTime::from_num_seconds_from_midnight_opt(secs, nano) {
        let e = ExtendedTime::from(t);
        assert_eq!(e.mins_from_midnight() as u32, secs / 60);
    }
    kani::cover!(true, "end of harness reachable");
}

// Vacuity witness: the assumption in any_time is satisfiable and the end is reached.
#[kani::proof]
fn c19_q_witness() {
    let a = any_time();
    let d: i16 = kani::any();
    let _ = a.add_minutes(d);
    kani::cover!(a.mins_from_midnight() == 2880, "48:00 reachable");
    kani::cover!(a.add_minutes(d).is_none(), "overflow reachable");
    kani::cover!(true, "end of harness reachable");
}
