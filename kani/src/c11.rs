//! C11 — sun events: coordinate acceptance, default events, offset arithmetic.
use chrono::{NaiveDate, NaiveTime, Timelike};
use opening_hours::localization::{Coordinates, Localize, NoLocation, TzLocation};
use opening_hours::{verif_hooks as vh, Context};
use opening_hours_syntax::rules::time::{TimeEvent, VariableTime};
use opening_hours_syntax::ExtendedTime;

use crate::util::*;

/// A coordinate pair is accepted iff lat in [-90, 90], lon in [-180, 180], neither NaN — over all
/// 2^128 pairs of f64 bit patterns; accepted pairs read back unchanged.
#[kani::proof]
fn c11_q_coordinates_accept() {
    let lat: f64 = kani::any();
    let lon: f64 = kani::any();
    let c = Coordinates::new(lat, lon);
    let valid = !lat.is_nan() && !lon.is_nan() && lat >= -90.0 && lat <= 90.0 && lon >= -180.0 && lon <= 180.0;
    assert_eq!(c.is_some(), valid);
    if let Some(c) = c {
        assert!(c.lat() == lat && c.lon() == lon);
    }
    kani::cover!(c.is_some(), "accepted pair reachable");
    kani::cover!(c.is_none() && !lat.is_nan() && !lon.is_nan(), "rejected non-NaN pair reachable");
}

fn any_event() -> (TimeEvent, u32) {
    let k: u8 = kani::any();
    kani::assume(k < 4);
    match k {
        0 => (TimeEvent::Dawn, 6),
        1 => (TimeEvent::Sunrise, 7),
        2 => (TimeEvent::Sunset, 19),
        _ => (TimeEvent::Dusk, 20),
    }
}

/// Without coordinates dawn/sunrise/sunset/dusk are 06:00/07:00/19:00/20:00 on every date, both for
/// NoLocation and for a time-zone location that has no coordinates.
#[kani::proof]
fn c11_q_default_events() {
    let date = any_date();
    let (ev, hour) = any_event();
    let t = NoLocation.event_time(date, ev);
    assert_eq!(t.num_seconds_from_midnight(), hour * 3600);
    assert_eq!(t.nanosecond(), 0);
    let tz = TzLocation::new(chrono::Utc);
    let t2 = tz.event_time(date, ev);
    assert_eq!(t2.num_seconds_from_midnight(), hour * 3600);
    kani::cover!(true, "end of harness reachable");
}

/// Event offset arithmetic: event time + offset minutes, 00:00 when the result leaves 00:00..48:00.
#[kani::proof]
fn c11_q_event_offset() {
    let date = any_date();
    let (ev, hour) = any_event();
    let offset: i16 = kani::any();
    let ctx = Context::default();
    let got = vh::variable_time_as_naive(&ctx, &VariableTime { event: ev, offset }, date);
    let want = hour as i32 * 60 + offset as i32;
    if (0..=2880).contains(&want) {
        assert_eq!(got.mins_from_midnight() as i32, want);
    } else {
        assert_eq!(got, ExtendedTime::MIDNIGHT_00);
    }
    kani::cover!(want < 0, "negative result reachable");
    kani::cover!(want > 1440, "past-midnight result reachable");
}
