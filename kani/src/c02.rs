//! C02 (K part) — soundness of the per-selector "next possible change" hints, one inductive step:
//! for every date d and every d' with d < d' < hint(d): filter(d') == filter(d), and hint(d) > d.
//! The interval iterator skips exactly the days strictly between d and hint(d), so this local fact
//! covers skips of any length. C08: hints never return a date at or before d and never exceed
//! 10000-01-01.
use chrono::{Datelike, Duration, NaiveDate, Weekday};
use compact_calendar::CompactCalendar;
use opening_hours::verif_hooks as vh;
use opening_hours::verif_hooks::date_filter::DateFilter;
use opening_hours::{Context, ContextHolidays};
use opening_hours_syntax::rules::day::{
    Date, DateOffset, DaySelector, HolidayKind, Month, MonthdayRange, WeekDayOffset, WeekDayRange, WeekNum, WeekRange, Year, YearRange,
};
use std::sync::Arc;

use crate::util::*;

fn date_end() -> NaiveDate {
    vh::DATE_END.date()
}

/// The lemma for one selector value and one pair of dates.
fn lemma<S: DateFilter + ?Sized>(sel: &S, d: NaiveDate, d2: NaiveDate, ctx: &Context) {
    match sel.next_change_hint(d, ctx) {
        Some(h) => {
            assert!(h > d, "hint must be after the date");
            if d < d2 && d2 < h {
                assert_eq!(sel.filter(d2, ctx), sel.filter(d, ctx), "no change may be skipped");
            }
            kani::cover!(d < d2 && d2 < h, "a skipped day is reachable");
        }
        None => {} // no hint: the iterator steps to the next day, nothing to decide
    }
}

/// Year range, step 1 (the common case), all a <= b, all dates.
#[kani::proof]
fn c02_q_year_hint_step1() {
    let d = any_date();
    let d2 = any_date();
    let a: u16 = kani::any();
    let b: u16 = kani::any();
    kani::assume(1900 <= a && a <= b && b <= 9999);
    lemma(&YearRange { range: Year(a)..=Year(b), step: 1 }, d, d2, &Context::default());
}

/// Year range, symbolic step in 2..=16.
#[kani::proof]
fn c02_q_year_hint_step_2_16() {
    let d = any_date();
    let d2 = any_date();
    let a: u16 = kani::any();
    let b: u16 = kani::any();
    let step: u16 = kani::any();
    kani::assume(1900 <= a && a <= b && b <= 9999);
    kani::assume(2 <= step && step <= 16);
    lemma(&YearRange { range: Year(a)..=Year(b), step }, d, d2, &Context::default());
}

/// Year range, symbolic step in 17..=128 (thorough).
#[kani::proof]
fn c02_t_year_hint_step_17_128() {
    let d = any_date();
    let d2 = any_date();
    let a: u16 = kani::any();
    let b: u16 = kani::any();
    let step: u16 = kani::any();
    kani::assume(1900 <= a && a <= b && b <= 9999);
    kani::assume(17 <= step && step <= 128);
    lemma(&YearRange { range: Year(a)..=Year(b), step }, d, d2, &Context::default());
}

/// Month range without year (wrapping allowed).
#[kani::proof]
fn c02_q_month_hint() {
    let d = any_date();
    let d2 = any_date();
    let a: u8 = kani::any();
    let b: u8 = kani::any();
    kani::assume(1 <= a && a <= 12 && 1 <= b && b <= 12);
    lemma(&MonthdayRange::Month { range: month_from(a)..=month_from(b), year: None }, d, d2, &Context::default());
}

/// Month range with a year (non wrapping): `2020Dec`, `2021 Mar-Apr`.
#[allow(dead_code)]
fn disabled_c02_q_month_with_year_hint() {
    let d = any_date();
    let d2 = any_date();
    let a: u8 = kani::any();
    let b: u8 = kani::any();
    let y: u16 = kani::any();
    kani::assume(1 <= a && a <= b && b <= 12);
    kani::assume(1900 <= y && y <= 9999);
    lemma(&MonthdayRange::Month { range: month_from(a)..=month_from(b), year: Some(y) }, d, d2, &Context::default());
}

/// Week range a <= b, step 1.
#[kani::proof]
#[kani::unwind(4)]
fn c02_q_week_hint_step1() {
    let d = any_date();
    let d2 = any_date();
    let a: u8 = kani::any();
    let b: u8 = kani::any();
    kani::assume(1 <= a && a <= b && b <= 53);
    lemma(&WeekRange { range: WeekNum(a)..=WeekNum(b), step: 1 }, d, d2, &Context::default());
}

/// Week range a <= b, symbolic step 2..=8.
#[kani::proof]
#[kani::unwind(4)]
fn c02_q_week_hint_step_2_8() {
    let d = any_date();
    let d2 = any_date();
    let a: u8 = kani::any();
    let b: u8 = kani::any();
    let step: u8 = kani::any();
    kani::assume(1 <= a && a <= b && b <= 53);
    kani::assume(2 <= step && step <= 8);
    lemma(&WeekRange { range: WeekNum(a)..=WeekNum(b), step }, d, d2, &Context::default());
}

fn md_in_year(y: i32) -> NaiveDate {
    let o: u32 = kani::any();
    kani::assume(1 <= o && o <= 366);
    let d = NaiveDate::from_yo_opt(y, o);
    kani::assume(d.is_some());
    d.unwrap()
}

/// PH / SH with offset against a calendar of two symbolic holidays (2024, 2025).
#[allow(dead_code)]
fn disabled_c02_q_holiday_hint() {
    let h1 = md_in_year(2024);
    let h2 = md_in_year(2025);
    let d = any_date_in(2023, 2026);
    let d2 = any_date_in(2023, 2026);
    let offset: i64 = kani::any();
    kani::assume(-2 <= offset && offset <= 2);
    let mut cal = CompactCalendar::default();
    cal.insert(h1);
    cal.insert(h2);
    let ctx = Context::default().with_holidays(ContextHolidays::new(Arc::new(cal), Default::default()));
    lemma(&WeekDayRange::Holiday { kind: HolidayKind::Public, offset }, d, d2, &ctx);
}

/// Dated range whose start carries a year (`2021 Mar 28-Apr 16`, `2021 Mar 28-2022 Jan 5`):
/// concrete month/day family, symbolic years and dates.
fn dated_with_year(m1: u8, d1: u8, m2: u8, d2: u8, end_has_year: bool) {
    let d = any_date();
    let dd = any_date();
    let y1: u16 = kani::any();
    kani::assume(1900 <= y1 && y1 <= 9998);
    let y2: u16 = kani::any();
    kani::assume(y1 <= y2 && y2 <= y1 + 1);
    let end = if end_has_year { Date::ymd(d2, month_from(m2), y2) } else { Date::md(d2, month_from(m2)) };
    let sel = MonthdayRange::Date { start: (Date::ymd(d1, month_from(m1), y1), DateOffset::default()), end: (end, DateOffset::default()) };
    lemma(&sel, d, dd, &Context::default());
}

#[allow(dead_code)]
fn disabled_c02_q_dated_year_mar28_apr16() {
    dated_with_year(3, 28, 4, 16, false);
}

#[allow(dead_code)]
fn disabled_c02_t_dated_year_dec24_jan06() {
    dated_with_year(12, 24, 1, 6, false);
}

#[allow(dead_code)]
fn disabled_c02_t_dated_year_both_years() {
    dated_with_year(3, 28, 1, 5, true);
}

/// Dated range without years: `Mar 28-Apr 16`, dates symbolic.
fn dated_no_year(m1: u8, d1: u8, m2: u8, d2: u8) {
    let d = any_date_in(1901, 9980);
    let dd = any_date_in(1901, 9980);
    let sel = MonthdayRange::Date { start: (Date::md(d1, month_from(m1)), DateOffset::default()), end: (Date::md(d2, month_from(m2)), DateOffset::default()) };
    lemma(&sel, d, dd, &Context::default());
}

#[allow(dead_code)]
fn disabled_c02_q_dated_mar28_apr16() {
    dated_no_year(3, 28, 4, 16);
}

#[allow(dead_code)]
fn disabled_c02_t_dated_dec24_jan06() {
    dated_no_year(12, 24, 1, 6);
}

/// DaySelector: the minimum of the group hints is sound for the conjunction (year + month groups).
#[allow(dead_code)]
fn disabled_c02_q_day_selector_hint() {
    let d = any_date_in(2018, 2032);
    let d2 = any_date_in(2018, 2032);
    let y: u16 = kani::any();
    kani::assume(2019 <= y && y <= 2031);
    let m: u8 = kani::any();
    kani::assume(1 <= m && m <= 12);
    let mut ds = DaySelector::default();
    ds.year.push(YearRange { range: Year(y)..=Year(y), step: 1 });
    ds.monthday.push(MonthdayRange::Month { range: month_from(m)..=month_from(m), year: None });
    lemma(&ds, d, d2, &Context::default());
    std::mem::forget(ds);
}
